#!/usr/bin/env python3
"""Seeded-change tooling.

  seedcheck.py confirm <seed-dir>
      In a scratch worktree OUTSIDE /repo and /verif: the patch applies, the crate compiles, the unedited
      suite passes with it, the demonstration fails with it and passes without it.  Removes the worktree.
  seedcheck.py run <seed-dir> [--tier quick|thorough] [--props C01,C07,...]
      Apply the patch to /repo (git apply), run the listed checks (default: the property the seed breaks),
      undo it (git checkout -- .).  Appends what was run and what was reported to <seed-dir>/meta.json.
A seed dir holds patch.diff, demo.rs, meta.json.
"""
import json, os, shutil, subprocess, sys, time

REPO = "/repo"
VERIF = os.path.dirname(os.path.dirname(os.path.abspath(__file__)))
SCRATCH = "/tmp/seedwt"


def sh(cmd, cwd=None, timeout=None, env=None):
    e = dict(os.environ)
    e["CARGO_NET_OFFLINE"] = "true"
    if env:
        e.update(env)
    r = subprocess.run(cmd, cwd=cwd, stdout=subprocess.PIPE, stderr=subprocess.STDOUT, text=True, timeout=timeout, env=e)
    return r.returncode, r.stdout


def load_meta(d):
    p = os.path.join(d, "meta.json")
    return json.load(open(p)) if os.path.exists(p) else {}


def save_meta(d, m):
    json.dump(m, open(os.path.join(d, "meta.json"), "w"), indent=1)


def confirm(d):
    d = os.path.abspath(d)
    wt = f"{SCRATCH}_{os.getpid()}"
    sh(["git", "-C", REPO, "worktree", "remove", "--force", wt])
    rc, out = sh(["git", "-C", REPO, "worktree", "add", "--detach", wt, "HEAD"])
    if rc:
        print(out)
        return 2
    res = {}
    try:
        os.makedirs(os.path.join(wt, "tests"), exist_ok=True)
        shutil.copy(os.path.join(d, "demo.rs"), os.path.join(wt, "tests", "demo.rs"))
        tgt = {"CARGO_TARGET_DIR": os.path.join(wt, "target")}
        rc, out = sh(["cargo", "test", "--offline", "--test", "demo"], cwd=wt, env=tgt, timeout=1800)
        res["demo_passes_without_patch"] = rc == 0
        rc, out = sh(["git", "apply", os.path.join(d, "patch.diff")], cwd=wt)
        res["patch_applies"] = rc == 0
        if rc:
            print(out)
        rc, out = sh(["cargo", "test", "--offline", "--test", "demo"], cwd=wt, env=tgt, timeout=1800)
        res["demo_fails_with_patch"] = rc != 0
        res["demo_output_tail"] = out[-1500:]
        os.remove(os.path.join(wt, "tests", "demo.rs"))
        rc, out = sh(["cargo", "test", "--offline", "--workspace", "--no-fail-fast"], cwd=wt, env=tgt, timeout=3600)
        lines = [l for l in out.splitlines() if l.startswith("test result:")]
        res["suite_passes_with_patch"] = rc == 0
        res["suite_summary"] = lines[:1]
        rc, out = sh(["cargo", "build", "--offline", "--release"], cwd=wt, env=tgt, timeout=1800)
        res["release_build_ok"] = rc == 0
    finally:
        sh(["git", "-C", REPO, "worktree", "remove", "--force", wt])
        shutil.rmtree(wt, ignore_errors=True)
    ok = all(res.get(k) for k in ("demo_passes_without_patch", "patch_applies", "demo_fails_with_patch", "suite_passes_with_patch"))
    m = load_meta(d)
    m["confirmed"] = ok
    m["confirmation"] = res
    m["confirmed_at"] = time.strftime("%Y-%m-%dT%H:%M:%SZ", time.gmtime())
    m["repo_head"] = sh(["git", "-C", REPO, "rev-parse", "--short", "HEAD"])[1].strip()
    save_meta(d, m)
    print(json.dumps({k: v for k, v in res.items() if k != "demo_output_tail"}, indent=1))
    print("CONFIRMED" if ok else "NOT CONFIRMED")
    return 0 if ok else 1


def run(d, tier, props):
    d = os.path.abspath(d)
    m = load_meta(d)
    if not props:
        props = [m.get("property", "")]
    rc, out = sh(["git", "-C", REPO, "status", "--porcelain", "--untracked-files=no"])
    if out.strip():
        print("refusing: /repo has uncommitted changes:\n" + out)
        return 2
    rc, out = sh(["git", "-C", REPO, "apply", os.path.join(d, "patch.diff")])
    if rc:
        print("patch does not apply to /repo:\n" + out)
        return 2
    results = []
    try:
        for p in props:
            t0 = time.time()
            rc, out = sh([os.path.join(VERIF, "check"), p, "--tier", tier], cwd=VERIF, timeout=4 * 3600)
            viol = [l for l in out.splitlines() if l.startswith("VIOLATION")]
            inc = [l for l in out.splitlines() if l.startswith("INCONCLUSIVE")]
            results.append({"property": p, "tier": tier, "exit": rc, "violation_lines": viol, "inconclusive": inc[:3],
                            "wall_s": round(time.time() - t0), "detected": rc == 1 and bool(viol),
                            "failed_checks": [l.strip() for l in out.splitlines() if l.strip().startswith("violated in")]})
            print(f"{os.path.basename(os.path.dirname(d))}/{os.path.basename(d)} {p} {tier}: exit={rc} {'DETECTED' if rc == 1 and viol else 'missed' if rc == 0 else 'inconclusive'} ({round(time.time() - t0)}s)")
            for l in results[-1]["failed_checks"]:
                print("   ", l)
    finally:
        sh(["git", "-C", REPO, "checkout", "--", "."])
    m.setdefault("runs", []).extend(results)
    save_meta(d, m)
    return 0


if __name__ == "__main__":
    a = sys.argv[1:]
    if len(a) >= 2 and a[0] == "confirm":
        sys.exit(confirm(a[1]))
    if len(a) >= 2 and a[0] == "run":
        tier = "quick"
        props = []
        i = 2
        while i < len(a):
            if a[i] == "--tier":
                tier = a[i + 1]
                i += 2
            elif a[i] == "--props":
                props = a[i + 1].split(",")
                i += 2
            else:
                i += 1
        sys.exit(run(a[1], tier, props))
    print(__doc__)
    sys.exit(64)
