#!/bin/bash
# apply each confirmed seed to /repo in turn, run its property's check, undo; usage: tools/run_seeds.sh <tier> <seed ids...>
cd "$(dirname "$0")/.."
tier=$1; shift
for k in "$@"; do
  python3 tools/seedcheck.py run seeded/$k --tier $tier 2>&1 | grep -v "^    "
  git -C /repo checkout -- . 2>/dev/null
done
