#!/bin/bash
# Self-test of the known-findings mechanism (not a registered check).  With the C07 fix reverted:
#  (1) a findings file listing exactly that (harness, check) must give KNOWN-FINDING + exit 0;
#  (2) with the same file and a DIFFERENT violation of C07 (seed C07B) the check must still exit 1.
cd "$(dirname "$0")/.."
set -u
tmp=$(mktemp)
cat known_findings.txt > $tmp
echo 'finding: property=C07 harness=c07_pair_laws check="consistent with equality: cmp == Equal iff a == b" two different invalid ranks compare Equal (test entry)' >> $tmp
git -C /repo apply $PWD/seeded/FIX-C07/patch.diff || exit 2
VERIF_KNOWN_FINDINGS=$tmp ./check C07 > out/kf_test1.log 2>&1; rc1=$?
git -C /repo checkout -- .
git -C /repo apply $PWD/seeded/C07B/patch.diff || exit 2
VERIF_KNOWN_FINDINGS=$tmp ./check C07 > out/kf_test2.log 2>&1; rc2=$?
git -C /repo checkout -- .
rm -f $tmp
echo "listed finding:    exit=$rc1 $(grep -c '^KNOWN-FINDING' out/kf_test1.log) KNOWN-FINDING line(s), $(grep -c '^VIOLATION' out/kf_test1.log) VIOLATION line(s)   (want 0 / >=1 / 0)"
echo "different failure: exit=$rc2 $(grep -c '^VIOLATION' out/kf_test2.log) VIOLATION line(s)   (want 1 / >=1)"
[ $rc1 -eq 0 ] && [ $rc2 -eq 1 ] && grep -q '^KNOWN-FINDING' out/kf_test1.log && echo "known-findings self-test OK"
