#!/bin/bash
# run every property's check sequentially; usage: tools/runall.sh [quick|thorough] [ids...]
cd "$(dirname "$0")/.."
tier=${1:-quick}; shift
ids=${@:-C01 C02 C03 C04 C05 C06 C07 C08 C09 C10 C11 C12 C13 C14 C15 C16 C17 C18 C19 C20}
for p in $ids; do
  s=$(date +%s)
  ./check $p --tier $tier > out/run_$p.$tier.log 2>&1
  rc=$?
  e=$(date +%s)
  echo "$p tier=$tier exit=$rc wall=$((e-s))s"
done
