#!/usr/bin/env python3
"""Write /verif/MANIFEST.json from the harness table (vlib/table.py)."""
import json, os, sys
V = os.path.dirname(os.path.dirname(os.path.abspath(__file__)))
sys.path.insert(0, os.path.join(V, "vlib"))
from table import TABLE, PROPERTY_META
ids = [f"C{i:02d}" for i in range(1, 21)]
claimed = [p for p in ids if p in TABLE]
LEVEL = ("bounded model checking of the compiled real code: Kani compiles /repo's current tree plus the harness crate to a goto program, CBMC bit-blasts it "
         "and a SAT solver decides every assertion for all inputs in the stated domain at once (UNSAT = holds within the bound; SAT = concrete model, replayed natively "
         "in dev and release before it is reported). Right level here because each property is a for-all over words/cards/short strings with rare interesting inputs. ")
NA = {}
checks = []
for p in claimed:
    m = PROPERTY_META[p]
    checks.append({
        "property_id": p,
        "quick_cmd": f"./check {p} --tier quick",
        "thorough_cmd": f"./check {p} --tier thorough",
        "evidence_file": f"/verif/evidence/{p}.json",
        "replay_cmd_template": f"./check {p} --replay {{path}}",
        "engine": "kani-cbmc",
        "level_claimed": {"category": "model_checking", "text": LEVEL + "Claim: " + m["claim"] + " Outside the bound: " + m["outside"],
                          "design_ref": f"DESIGN.md §5 {p}"},
        "level_note": "trusted: rustc MIR -> Kani codegen, CBMC 6.11, SAT back end (cadical/kissat), Kani's intrinsic models, core library of Kani's toolchain; "
                      "stubs/abstractions per harness are listed in the evidence file (stubs_and_assumptions)",
        "technique": "SAT-based bounded model checking of the real code (Kani 0.68 -> CBMC 6.11 -> cadical/kissat) over #[kani::proof] harnesses with kani::any() inputs; unwinding assertions on; native replay of models",
    })
man = {
    "version": 1,
    "setup_cmd": "./setup.sh",
    "hooks": {"guard": "none", "enable": "no source hooks: the harnesses live in the external crate /verif/harness with a path dependency on /repo; cargo kani sets cfg(kani) for that crate only",
              "baseline_off_cmd": "cd /repo && (cargo nextest run --workspace --no-fail-fast --offline || cargo test --workspace --no-fail-fast --offline)",
              "source_commits": [], "add_only": True},
    "engines": [{"name": "kani-cbmc", "path": "/verif/check", "serves_properties": claimed,
                 "kind_free_text": "Kani 0.68 + CBMC 6.11 + cadical/kissat; driver vlib/driver.py; harness crate /verif/harness; native replay crate /verif/replay"}],
    "checks": checks,
    "notes": "Exit 0 = all obligations discharged; exit 1 + VIOLATION line = solver model reproduced natively on the real build; exit 2 = inconclusive (timeout/OOM/build error/"
             "non-reproducing model), never reported as success. Genuine defects found and repaired in /repo by fix: commits are listed in known_findings.txt.",
    "not_applicable": [{"property_id": p, "reason": NA.get(p, "check not built yet")} for p in ids if p not in claimed],
}
json.dump(man, open(os.path.join(V, "MANIFEST.json"), "w"), indent=1)
print("claimed", len(claimed), "not_applicable", len(man["not_applicable"]))
