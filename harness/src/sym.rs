//! Symbolic-input source shared by the Kani build and the native replay build.
//!
//! Under `cfg(kani)` every draw is `kani::any()`, `assume` is `kani::assume`, and the
//! `check!` / `cover!` macros expand to `kani::assert` / `kani::cover` *at the call site*
//! (so CBMC keeps one property per assertion).
//!
//! Natively the same harness body is executed on a concrete value list (the model the SAT
//! solver returned, decoded by the driver from Kani's concrete playback, in draw order):
//! draws pop values, a failed `assume` aborts the run as "model does not apply", a failed
//! `check!` or any panic of the real code is a reproduced violation.

#[cfg(not(kani))]
pub mod native {
    use std::cell::RefCell;
    #[derive(Default)]
    pub struct State {
        pub vals: Vec<u64>,
        pub pos: usize,
        pub failed: Vec<&'static str>,
        pub covered: Vec<&'static str>,
        pub exhausted: bool,
        pub notes: Vec<String>,
    }
    thread_local! { pub static ST: RefCell<State> = RefCell::new(State::default()); }
    pub struct AssumeFailed;
    pub fn load(vals: Vec<u64>) {
        ST.with(|s| *s.borrow_mut() = State { vals, ..State::default() });
    }
    pub fn next() -> u64 {
        ST.with(|s| {
            let mut s = s.borrow_mut();
            let p = s.pos;
            s.pos += 1;
            if p < s.vals.len() { s.vals[p] } else { s.exhausted = true; 0 }
        })
    }
    pub fn fail(msg: &'static str) { ST.with(|s| s.borrow_mut().failed.push(msg)); }
    pub fn cov(msg: &'static str) { ST.with(|s| s.borrow_mut().covered.push(msg)); }
    pub fn note(msg: String) { ST.with(|s| s.borrow_mut().notes.push(msg)); }
}

#[cfg(kani)]
mod imp {
    #[inline(always)] pub fn u8() -> u8 { kani::any() }
    #[inline(always)] pub fn u16() -> u16 { kani::any() }
    #[inline(always)] pub fn u32() -> u32 { kani::any() }
    #[inline(always)] pub fn u64() -> u64 { kani::any() }
    #[inline(always)] pub fn usize() -> usize { kani::any() }
    #[inline(always)] pub fn bool() -> bool { kani::any() }
    #[inline(always)] pub fn assume(c: bool) { kani::assume(c) }
    #[inline(always)] pub fn char() -> char { kani::any() }
}
#[cfg(not(kani))]
mod imp {
    use super::native;
    pub fn u8() -> u8 { native::next() as u8 }
    pub fn u16() -> u16 { native::next() as u16 }
    pub fn u32() -> u32 { native::next() as u32 }
    pub fn u64() -> u64 { native::next() }
    pub fn usize() -> usize { native::next() as usize }
    pub fn bool() -> bool { native::next() & 1 == 1 }
    pub fn assume(c: bool) { if !c { std::panic::panic_any(native::AssumeFailed) } }
    pub fn char() -> char {
        match char::from_u32(native::next() as u32) { Some(c) => c, None => std::panic::panic_any(native::AssumeFailed) }
    }
}
pub use imp::*;

/// `N` arbitrary 32-bit words, drawn one value per slot (draw order = slot order).
pub fn words<const N: usize>() -> [u32; N] {
    let mut a = [0u32; N];
    let mut i = 0;
    while i < N { a[i] = u32(); i += 1; }
    a
}

#[cfg(kani)]
#[macro_export]
macro_rules! check { ($c:expr, $m:literal) => { kani::assert($c, $m) }; }
#[cfg(not(kani))]
#[macro_export]
macro_rules! check { ($c:expr, $m:literal) => { if !($c) { $crate::sym::native::fail($m) } }; }

#[cfg(kani)]
#[macro_export]
macro_rules! cover { ($c:expr, $m:literal) => { kani::cover($c, $m) }; }
#[cfg(not(kani))]
#[macro_export]
macro_rules! cover { ($c:expr, $m:literal) => { if $c { $crate::sym::native::cov($m) } }; }

/// slot-by-slot array equality (array `==` compiles to a byte-wise memcmp loop, which would need unwind 4N+1)
pub fn same<const N: usize>(a: [u32; N], b: [u32; N]) -> bool {
    let mut ok = true;
    let mut i = 0;
    while i < N {
        if a[i] != b[i] {
            ok = false;
        }
        i += 1;
    }
    ok
}

/// `&'static str` view of the first `len` bytes of an ASCII buffer (the hand parsers take `&'static str`).
/// Kani: lifetime transmute of a stack buffer that outlives every use in the harness; natively: a leaked copy.
pub fn leak_ascii(bytes: &[u8; 8], len: usize) -> &'static str {
    #[cfg(kani)]
    unsafe {
        core::mem::transmute::<&str, &'static str>(core::str::from_utf8_unchecked(&bytes[..len]))
    }
    #[cfg(not(kani))]
    {
        Box::leak(String::from_utf8_lossy(&bytes[..len]).into_owned().into_boxed_str())
    }
}
