pub mod cards;
pub mod classes;
#[rustfmt::skip]
pub mod classes_gen;
#[rustfmt::skip]
pub mod consts_gen;
pub mod ord;
