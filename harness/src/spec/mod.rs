pub mod cards;
pub mod classes;
#[rustfmt::skip]
pub mod classes_gen;
pub mod ord;
