//! S1 — the card layout, written from the documented bit picture, not from the repository's constants.
//!
//! ```txt
//! +--------+--------+--------+--------+
//! |mmmbbbbb|bbbbbbbb|SHDCrrrr|xxpppppp|
//! +--------+--------+--------+--------+
//! ```
//! ranks r = 0..=12 (deuce..ace), suits s = 0..=3 (clubs, diamonds, hearts, spades).

pub const PRIME: [u32; 13] = [2, 3, 5, 7, 11, 13, 17, 19, 23, 29, 31, 37, 41];

/// The word of rank `r`, suit `s`.
pub const fn word(r: u32, s: u32) -> u32 {
    PRIME[r as usize] | (r << 8) | (1 << (12 + s)) | (1 << (16 + r))
}

/// Is `w` one of the 52 card words?  Field-by-field, no list of constants.
pub fn is_card(w: u32) -> bool {
    let r = (w >> 8) & 15;
    let sb = (w >> 12) & 15;
    if r > 12 {
        return false;
    }
    (sb == 1 || sb == 2 || sb == 4 || sb == 8)
        && (w & 0x3F) == PRIME[r as usize]
        && (w >> 16) == (1u32 << r)
        && (w & 0xC0) == 0
}

/// Rank number of a card word (meaningful for cards).
pub fn rank_of(w: u32) -> u32 {
    (w >> 8) & 15
}

/// Suit number 0..=3 of a card word (meaningful for cards).
pub fn suit_of(w: u32) -> u32 {
    let sb = (w >> 12) & 15;
    match sb {
        1 => 0,
        2 => 1,
        4 => 2,
        _ => 3,
    }
}

/// Deck position: spades A..2, hearts A..2, diamonds, clubs.
pub const fn deck_pos(r: u32, s: u32) -> u32 {
    (3 - s) * 13 + (12 - r)
}

/// Card word at deck position `i` (0..52).
pub const fn deck_word(i: u32) -> u32 {
    word(12 - i % 13, 3 - i / 13)
}

/// Bit of the 64-bit set form for rank/suit.
pub const fn set_bit(r: u32, s: u32) -> u64 {
    1u64 << (51 - deck_pos(r, s))
}

/// Spec of word -> set bit for arbitrary words.
pub fn set_bit_of_word(w: u32) -> u64 {
    if is_card(w) {
        1u64 << (51 - deck_pos(rank_of(w), suit_of(w)))
    } else {
        0
    }
}

/// A symbolic real card: draws rank then suit (two u8 draws), assumes them in range.
pub fn any_card() -> (u32, u32, u32) {
    let r = crate::sym::u8() as u32;
    let s = crate::sym::u8() as u32;
    crate::sym::assume(r <= 12 && s <= 3);
    (word(r, s), r, s)
}

/// A symbolic slot over {52 cards, blank}: rank 13 encodes blank.
pub fn any_card_or_blank() -> u32 {
    let r = crate::sym::u8() as u32;
    let s = crate::sym::u8() as u32;
    crate::sym::assume(r <= 13 && s <= 3);
    if r == 13 {
        0
    } else {
        word(r, s)
    }
}

pub const RANK_CHARS: [char; 13] = ['2', '3', '4', '5', '6', '7', '8', '9', 'T', 'J', 'Q', 'K', 'A'];
pub const SUIT_LETTERS: [char; 4] = ['C', 'D', 'H', 'S'];
pub const SUIT_GLYPHS: [char; 4] = ['♣', '♦', '♥', '♠'];

/// Statement of C12: rank symbol table. Returns rank number or 13 for "not a rank symbol".
pub fn rank_of_char(c: char) -> u32 {
    match c {
        'A' | 'a' => 12,
        'K' | 'k' => 11,
        'Q' | 'q' => 10,
        'J' | 'j' => 9,
        'T' | 't' | '0' => 8,
        '9' => 7,
        '8' => 6,
        '7' => 5,
        '6' => 4,
        '5' => 3,
        '4' => 2,
        '3' => 1,
        '2' => 0,
        _ => 13,
    }
}

/// Statement of C12: suit symbol table (letters either case, filled or outline glyph). 4 = none.
pub fn suit_of_char(c: char) -> u32 {
    match c as u32 {
        0x53 | 0x73 | 0x2660 | 0x2664 => 3, // S s ♠ ♤
        0x48 | 0x68 | 0x2665 | 0x2661 => 2, // H h ♥ ♡
        0x44 | 0x64 | 0x2666 | 0x2662 => 1, // D d ♦ ♢
        0x43 | 0x63 | 0x2663 | 0x2667 => 0, // C c ♣ ♧
        _ => 4,
    }
}
