//! S4 — value -> category / class position by arithmetic on the category sizes
//! 10, 156, 156, 1277, 10, 858, 858, 2860, 1277 (the counts of distinct hands per category).
pub use super::classes_gen::{CLASS, NAME};

/// category index 0..=8, 9 = invalid
pub fn cat_index(v: u16) -> usize {
    if v == 0 || v > 7462 {
        9
    } else if v <= 10 {
        0
    } else if v <= 10 + 156 {
        1
    } else if v <= 10 + 156 + 156 {
        2
    } else if v <= 10 + 156 + 156 + 1277 {
        3
    } else if v <= 10 + 156 + 156 + 1277 + 10 {
        4
    } else if v <= 10 + 156 + 156 + 1277 + 10 + 858 {
        5
    } else if v <= 10 + 156 + 156 + 1277 + 10 + 858 + 858 {
        6
    } else if v <= 10 + 156 + 156 + 1277 + 10 + 858 + 858 + 2860 {
        7
    } else {
        8
    }
}

/// number of non-straight five-rank sets whose top rank is the i-th highest (ace = 0):
/// C(top,4) - 1 straight (- 1 wheel for the ace)
pub const TOPS: [u16; 8] = [493, 329, 209, 125, 69, 34, 14, 4];

fn top_index(off: u16) -> u16 {
    // off = 0-based offset inside a flush / high-card block of 1277
    let mut acc = 0u16;
    let mut i = 0u16;
    while i < 8 {
        acc += TOPS[i as usize];
        if off < acc {
            return i;
        }
        i += 1;
    }
    7
}

/// class position 0..=308 in S4 order, 309 = invalid
pub fn class_index(v: u16) -> usize {
    (match cat_index(v) {
        0 => v - 1,
        1 => 10 + (v - 11) / 12,
        2 => 23 + (v - 167),
        3 => 179 + top_index(v - 323),
        4 => 187 + (v - 1600),
        5 => 197 + (v - 1610) / 66,
        6 => 210 + (v - 2468) / 11,
        7 => 288 + (v - 3326) / 220,
        8 => 301 + top_index(v - 6186),
        _ => 309,
    }) as usize
}

/// smallest value of class position j (0..=308): the witness that the class is non-empty
pub fn first_value(j: u16) -> u16 {
    fn tops_before(i: u16) -> u16 {
        let mut acc = 0;
        let mut k = 0;
        while k < i {
            acc += TOPS[k as usize];
            k += 1;
        }
        acc
    }
    if j < 10 {
        1 + j
    } else if j < 23 {
        11 + 12 * (j - 10)
    } else if j < 179 {
        167 + (j - 23)
    } else if j < 187 {
        323 + tops_before(j - 179)
    } else if j < 197 {
        1600 + (j - 187)
    } else if j < 210 {
        1610 + 66 * (j - 197)
    } else if j < 288 {
        2468 + 11 * (j - 210)
    } else if j < 301 {
        3326 + 220 * (j - 288)
    } else {
        6186 + tops_before(j - 301)
    }
}
