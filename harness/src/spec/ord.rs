//! S2 — the poker strength ordinal of a five-card hand, written from the rules of poker:
//! category first, then lexicographic comparison of the significant ranks, expressed as a
//! ranking function with binomial coefficients.  No table of the repository is consulted.
//!
//! S3 — `WITNESS[k]`: five distinct card words whose ordinal is `k`, built at compile time by
//! running `ord` over every rank multiset (so it is the inverse of S2 by construction).

use super::cards::word;

// binomials C(n,k), n = 0..=13
pub const C2: [u16; 14] = [0, 0, 1, 3, 6, 10, 15, 21, 28, 36, 45, 55, 66, 78];
pub const C3: [u16; 14] = [0, 0, 0, 1, 4, 10, 20, 35, 56, 84, 120, 165, 220, 286];
pub const C4: [u16; 14] = [0, 0, 0, 0, 1, 5, 15, 35, 70, 126, 210, 330, 495, 715];
pub const C5: [u16; 14] = [0, 0, 0, 0, 0, 1, 6, 21, 56, 126, 252, 462, 792, 1287];

#[inline(always)]
const fn cswap(x: u8, y: u8) -> (u8, u8) {
    if x < y {
        (y, x)
    } else {
        (x, y)
    }
}

/// Fixed 9-comparator sorting network, descending.
pub const fn sort5_desc(r: [u8; 5]) -> [u8; 5] {
    let [mut a, mut b, mut c, mut d, mut e] = r;
    (a, b) = cswap(a, b);
    (d, e) = cswap(d, e);
    (c, e) = cswap(c, e);
    (c, d) = cswap(c, d);
    (a, d) = cswap(a, d);
    (a, c) = cswap(a, c);
    (b, e) = cswap(b, e);
    (b, d) = cswap(b, d);
    (b, c) = cswap(b, c);
    [a, b, c, d, e]
}

/// position of kicker k among the 13 ranks minus those in X that are above it (descending, 0-based)
const fn posx1(k: u8, x: u8) -> u16 {
    (12 - k) as u16 - (if x > k { 1 } else { 0 })
}
const fn posx2(k: u8, x: u8, y: u8) -> u16 {
    (12 - k) as u16 - (if x > k { 1 } else { 0 }) - (if y > k { 1 } else { 0 })
}
/// re-index k in the 12 ranks that remain once x is removed
const fn re(k: u8, x: u8) -> u8 {
    if k > x {
        k - 1
    } else {
        k
    }
}
/// number of pairs (h',l'), h'>l', among n ranks that precede (h,l) in descending lexicographic order
const fn pair_ix(h: u8, l: u8, n: usize) -> u16 {
    C2[n] - C2[h as usize + 1] + (h - 1 - l) as u16
}
const fn triple_ix(k1: u8, k2: u8, k3: u8) -> u16 {
    C3[12] - C3[k1 as usize + 1] + C2[k1 as usize] - C2[k2 as usize + 1] + (k2 - 1 - k3) as u16
}

pub const CAT_SF: u8 = 0;
pub const CAT_QUADS: u8 = 1;
pub const CAT_FULL: u8 = 2;
pub const CAT_FLUSH: u8 = 3;
pub const CAT_STRAIGHT: u8 = 4;
pub const CAT_TRIPS: u8 = 5;
pub const CAT_TWOPAIR: u8 = 6;
pub const CAT_PAIR: u8 = 7;
pub const CAT_HIGH: u8 = 8;
pub const CAT_INVALID: u8 = 9;

/// Shape of a five-card hand: category, ordinal 1..=7462, and class position 0..=308 (S4 order).
#[derive(Clone, Copy)]
pub struct Shape {
    pub cat: u8,
    pub ord: u16,
    pub class: u16,
}

/// Precondition: ranks <= 12, not five of a kind, and `flush` only with five distinct ranks.
pub const fn shape(r: [u8; 5], flush: bool) -> Shape {
    let [a, b, c, d, e] = sort5_desc(r);
    let e1 = a == b;
    let e2 = b == c;
    let e3 = c == d;
    let e4 = d == e;
    if !e1 && !e2 && !e3 && !e4 {
        let straight = a - e == 4;
        let wheel = a == 12 && b == 3 && c == 2 && d == 1 && e == 0;
        if straight || wheel {
            let top = if straight { a } else { 3 };
            let off = (12 - top) as u16;
            return if flush {
                Shape { cat: CAT_SF, ord: 1 + off, class: off }
            } else {
                Shape { cat: CAT_STRAIGHT, ord: 1600 + off, class: 187 + off }
            };
        }
        let lex = C5[13] - C5[a as usize + 1] + C4[a as usize] - C4[b as usize + 1] + C3[b as usize] - C3[c as usize + 1]
            + C2[c as usize]
            - C2[d as usize + 1]
            + (d - 1 - e) as u16;
        let hc = lex - (13 - a) as u16 - (if a < 12 { 1 } else { 0 });
        let topix = (12 - a) as u16; // AceHigh.. SevenHigh = 0..7
        return if flush {
            Shape { cat: CAT_FLUSH, ord: 323 + hc, class: 179 + topix }
        } else {
            Shape { cat: CAT_HIGH, ord: 6186 + hc, class: 301 + topix }
        };
    }
    // quads
    if e1 && e2 && e3 {
        return Shape { cat: CAT_QUADS, ord: 11 + 12 * (12 - a) as u16 + posx1(e, a), class: 10 + (12 - a) as u16 };
    }
    if e2 && e3 && e4 {
        return Shape { cat: CAT_QUADS, ord: 11 + 12 * (12 - b) as u16 + posx1(a, b), class: 10 + (12 - b) as u16 };
    }
    // full house
    if e1 && e2 && e4 {
        let v = 12 * (12 - a) as u16 + posx1(d, a);
        return Shape { cat: CAT_FULL, ord: 167 + v, class: 23 + v };
    }
    if e1 && e3 && e4 {
        let v = 12 * (12 - c) as u16 + posx1(a, c);
        return Shape { cat: CAT_FULL, ord: 167 + v, class: 23 + v };
    }
    // trips
    if e1 && e2 {
        return Shape {
            cat: CAT_TRIPS,
            ord: 1610 + 66 * (12 - a) as u16 + pair_ix(re(d, a), re(e, a), 12),
            class: 197 + (12 - a) as u16,
        };
    }
    if e2 && e3 {
        return Shape {
            cat: CAT_TRIPS,
            ord: 1610 + 66 * (12 - b) as u16 + pair_ix(re(a, b), re(e, b), 12),
            class: 197 + (12 - b) as u16,
        };
    }
    if e3 && e4 {
        return Shape {
            cat: CAT_TRIPS,
            ord: 1610 + 66 * (12 - c) as u16 + pair_ix(re(a, c), re(b, c), 12),
            class: 197 + (12 - c) as u16,
        };
    }
    // two pair
    if e1 && e3 {
        let p = pair_ix(a, c, 13);
        return Shape { cat: CAT_TWOPAIR, ord: 2468 + 11 * p + posx2(e, a, c), class: 210 + p };
    }
    if e1 && e4 {
        let p = pair_ix(a, d, 13);
        return Shape { cat: CAT_TWOPAIR, ord: 2468 + 11 * p + posx2(c, a, d), class: 210 + p };
    }
    if e2 && e4 {
        let p = pair_ix(b, d, 13);
        return Shape { cat: CAT_TWOPAIR, ord: 2468 + 11 * p + posx2(a, b, d), class: 210 + p };
    }
    // one pair
    let (p, k1, k2, k3) = if e1 {
        (a, c, d, e)
    } else if e2 {
        (b, a, d, e)
    } else if e3 {
        (c, a, b, e)
    } else {
        (d, a, b, c)
    };
    Shape {
        cat: CAT_PAIR,
        ord: 3326 + 220 * (12 - p) as u16 + triple_ix(re(k1, p), re(k2, p), re(k3, p)),
        class: 288 + (12 - p) as u16,
    }
}

pub const fn ord(r: [u8; 5], flush: bool) -> u16 {
    shape(r, flush).ord
}

/// Ordinal of five card words (precondition: five distinct real cards).
pub fn ord_of_words(w: [u32; 5]) -> u16 {
    let r = [
        ((w[0] >> 8) & 15) as u8,
        ((w[1] >> 8) & 15) as u8,
        ((w[2] >> 8) & 15) as u8,
        ((w[3] >> 8) & 15) as u8,
        ((w[4] >> 8) & 15) as u8,
    ];
    let flush = (w[0] & w[1] & w[2] & w[3] & w[4] & 0xF000) != 0;
    ord(r, flush)
}

pub fn shape_of_words(w: [u32; 5]) -> Shape {
    let r = [
        ((w[0] >> 8) & 15) as u8,
        ((w[1] >> 8) & 15) as u8,
        ((w[2] >> 8) & 15) as u8,
        ((w[3] >> 8) & 15) as u8,
        ((w[4] >> 8) & 15) as u8,
    ];
    let flush = (w[0] & w[1] & w[2] & w[3] & w[4] & 0xF000) != 0;
    shape(r, flush)
}

const fn build_witness() -> [[u32; 5]; 7463] {
    let mut t = [[0u32; 5]; 7463];
    let mut a = 0u8;
    while a <= 12 {
        let mut b = 0u8;
        while b <= a {
            let mut c = 0u8;
            while c <= b {
                let mut d = 0u8;
                while d <= c {
                    let mut e = 0u8;
                    while e <= d {
                        if a != e {
                            let k = ord([a, b, c, d, e], false) as usize;
                            // suits 3,2,1,0,3 over the descending ranks: five distinct cards, never a flush
                            t[k] = [
                                word(a as u32, 3),
                                word(b as u32, 2),
                                word(c as u32, 1),
                                word(d as u32, 0),
                                word(e as u32, 3),
                            ];
                            if a > b && b > c && c > d && d > e {
                                let k = ord([a, b, c, d, e], true) as usize;
                                t[k] = [
                                    word(a as u32, 3),
                                    word(b as u32, 3),
                                    word(c as u32, 3),
                                    word(d as u32, 3),
                                    word(e as u32, 3),
                                ];
                            }
                        }
                        e += 1;
                    }
                    d += 1;
                }
                c += 1;
            }
            b += 1;
        }
        a += 1;
    }
    t
}

/// `WITNESS[k]` for k in 1..=7462; entry 0 is all blanks.
#[allow(long_running_const_eval)]
pub static WITNESS: [[u32; 5]; 7463] = build_witness();
