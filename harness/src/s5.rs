//! S5 — uninterpreted five-card evaluator used for the six/seven-card logic.
//!
//! Under Kani the real `<Five as HandRanker>::hand_rank_value_and_hand` is replaced (kani::stub)
//! by `stub_five`: a nondeterministic table `T`, every entry in 1..=7462, indexed by the *set* of
//! base cards present in the five slots.  That builds in exactly three facts about the real
//! evaluator — slot-order invariance, range 1..=7462 on five distinct real cards, functional
//! dependence on the cards — which C01 establishes on the real code.  On anything that is not five
//! distinct base cards the stub returns a fresh unconstrained value (or fails, in strict mode).
//!
//! Natively nothing is stubbed: `f` calls the real evaluator, so a model is replayed on real code.

use ckc_rs::cards::five::Five;

pub static mut BASE: [u32; 7] = [0; 7];
pub static mut NBASE: usize = 0;
pub static mut T: [u16; 128] = [0; 128];
/// strict: reaching the evaluator with anything but five distinct base cards is a failure
pub static mut STRICT: bool = false;

/// Install the abstraction for the given base cards.  Draw order: the harness's own draws first,
/// then 128 table entries (ignored natively).
pub fn install(base: &[u32], strict: bool) {
    unsafe {
        NBASE = base.len();
        let mut i = 0;
        while i < base.len() {
            BASE[i] = base[i];
            i += 1;
        }
        STRICT = strict;
    }
    #[cfg(kani)]
    unsafe {
        let t: [u16; 128] = kani::any();
        let mut i = 0;
        while i < 128 {
            kani::assume(t[i] >= 1 && t[i] <= 7462);
            i += 1;
        }
        T = t;
    }
}

/// subset mask of the five slots over the base cards, or None when they are not five distinct base cards
pub fn mask_of(a: [u32; 5]) -> Option<usize> {
    let mut m = 0usize;
    let mut i = 0;
    while i < 5 {
        let mut found = 8usize;
        let mut j = 0;
        while j < unsafe { NBASE } {
            if found == 8 && unsafe { BASE[j] } == a[i] {
                found = j;
            }
            j += 1;
        }
        if found == 8 || (m >> found) & 1 == 1 {
            return None;
        }
        m |= 1 << found;
        i += 1;
    }
    Some(m)
}

/// The spec's view of "the five-card value of these five cards".
#[cfg(kani)]
pub fn f(a: [u32; 5]) -> u16 {
    match mask_of(a) {
        Some(m) => unsafe { T[m] },
        None => kani::any(),
    }
}
#[cfg(not(kani))]
pub fn f(a: [u32; 5]) -> u16 {
    use ckc_rs::cards::HandRanker;
    Five::from(a).hand_rank_value()
}

#[cfg(kani)]
pub fn stub_five(this: &Five) -> (u16, Five) {
    let a = this.to_arr();
    match mask_of(a) {
        Some(m) => (unsafe { T[m] }, *this),
        None => {
            if unsafe { STRICT } {
                kani::assert(false, "S5 strict: five-card evaluator reached with a hand that is not five distinct real cards");
            }
            (kani::any(), *this)
        }
    }
}
