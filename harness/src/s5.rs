//! S5 — uninterpreted five-card evaluator used for the six/seven-card logic.
//!
//! Under Kani the real `<Five as HandRanker>::hand_rank_value_and_hand` is replaced (kani::stub)
//! by `stub_five`: a nondeterministic table `T`, every entry in 1..=7462, indexed by the *set* of
//! base cards present in the five slots.  That builds in exactly three facts about the real
//! evaluator — slot-order invariance, range 1..=7462 on five distinct real cards, functional
//! dependence on the cards — which C01 establishes on the real code.  On anything that is not five
//! distinct base cards the stub returns a fresh unconstrained value (or fails, in strict mode).
//!
//! Natively nothing is stubbed: `f` calls the real evaluator, so a model is replayed on real code.

use ckc_rs::cards::five::Five;

pub static mut BASE: [u32; 8] = [0; 8];
pub static mut NBASE: usize = 0;
pub static mut T: [u16; 256] = [0; 256];
/// strict: reaching the evaluator with anything but five distinct base cards is a failure
pub static mut STRICT: bool = false;

/// Install the abstraction for the given base cards.  Draw order: the harness's own draws first,
/// then 128 table entries (ignored natively).
pub fn install(base: &[u32], strict: bool) {
    unsafe {
        NBASE = base.len();
        let mut i = 0;
        while i < base.len() {
            BASE[i] = base[i];
            i += 1;
        }
        STRICT = strict;
    }
    // natively the table is not used (the real evaluator runs); skip its draw so later draws stay aligned
    #[cfg(not(kani))]
    {
        let _ = crate::sym::native::next();
    }
    #[cfg(kani)]
    unsafe {
        // entries are constrained to 1..=7462 where they are read (`entry`), which avoids a 128-step loop here
        T = kani::any();
    }
}

/// read one table entry; every entry that is ever read is assumed to be a real ordinal
#[cfg(kani)]
pub fn entry(m: usize) -> u16 {
    let v = unsafe { T[m] };
    kani::assume(v >= 1 && v <= 7462);
    v
}

/// subset mask of the five slots over the base cards, or None when they are not five distinct base cards
pub fn mask_of(a: [u32; 5]) -> Option<usize> {
    let mut m = 0usize;
    let mut i = 0;
    while i < 5 {
        let mut found = 9usize;
        let mut j = 0;
        while j < unsafe { NBASE } {
            if found == 9 && unsafe { BASE[j] } == a[i] {
                found = j;
            }
            j += 1;
        }
        if found == 9 || (m >> found) & 1 == 1 {
            return None;
        }
        m |= 1 << found;
        i += 1;
    }
    Some(m)
}

/// The spec's view of "the five-card value of these five cards".
#[cfg(kani)]
pub fn f(a: [u32; 5]) -> u16 {
    match mask_of(a) {
        Some(m) => entry(m),
        None => kani::any(),
    }
}
#[cfg(not(kani))]
pub fn f(a: [u32; 5]) -> u16 {
    use ckc_rs::cards::HandRanker;
    Five::from(a).hand_rank_value()
}

#[cfg(kani)]
pub fn stub_five(this: &Five) -> (u16, Five) {
    let a = this.to_arr();
    match mask_of(a) {
        Some(m) => (entry(m), *this),
        None => {
            if unsafe { STRICT } {
                kani::assert(false, "S5 strict: five-card evaluator reached with a hand that is not five distinct real cards");
            }
            (kani::any(), *this)
        }
    }
}

/// Variant for C08: the five slots hold the base cards after the SAME number `CURK` of suit shifts (that is
/// what shifting a whole hand produces; the harness announces k before ranking the shifted hand).  The value
/// depends on the set of base cards only — i.e. this abstraction additionally builds in "a uniform suit shift does
/// not change a five-card value", which the c08_value_* harnesses establish on the real evaluator (and C01 through
/// the suit-blind ordinal).
pub static mut CURK: usize = 0;
pub static mut BASEK: [[u32; 8]; 4] = [[0; 8]; 4];

pub fn spec_shift(w: u32, k: u32) -> u32 {
    // S1: one shift moves suit s -> s+3 mod 4 (S->H->D->C->S)
    let r = (w >> 8) & 15;
    let s = crate::spec::cards::suit_of(w);
    crate::spec::cards::word(r, (s + 3 * k) % 4)
}

pub fn install_shift(base: &[u32]) {
    install(base, true);
    unsafe {
        let mut k = 0;
        while k < 4 {
            let mut j = 0;
            while j < base.len() {
                BASEK[k][j] = spec_shift(base[j], k as u32);
                j += 1;
            }
            k += 1;
        }
        CURK = 0;
    }
}

pub fn set_shift(k: usize) {
    unsafe { CURK = k }
}

#[cfg(kani)]
pub fn stub_five_shift(this: &Five) -> (u16, Five) {
    let a = this.to_arr();
    let k = unsafe { CURK };
    let mut m = 0usize;
    let mut ok = true;
    let mut i = 0;
    while i < 5 {
        let mut found = 9usize;
        let mut j = 0;
        while j < unsafe { NBASE } {
            if found == 9 && unsafe { BASEK[k][j] } == a[i] {
                found = j;
            }
            j += 1;
        }
        if found == 9 || (m >> found) & 1 == 1 {
            ok = false;
        } else {
            m |= 1 << found;
        }
        i += 1;
    }
    if !ok {
        kani::assert(false, "S5 (shift variant): evaluator reached with a hand that is not five distinct base cards under the announced uniform shift");
        return (kani::any(), *this);
    }
    (entry(m), *this)
}
