//! Solver-checked harnesses for ckc-rs.  Built two ways:
//!  * `cargo kani`  (cfg(kani)):   every `pub fn cXX_*()` in `h::*` is a `#[kani::proof]`;
//!  * natively (replay crate):     the same functions run on a concrete model (see `sym`).
#![allow(clippy::all)]
#![allow(static_mut_refs)]
#![allow(unused_imports)]

#[macro_use]
pub mod sym;
pub mod spec;
pub mod s5;
pub mod s6;
pub mod wiring;
pub mod h;
#[cfg(not(kani))]
pub mod registry;
