//! C06 — rank name / class describe exactly the poker class of the value.
use crate::spec::classes::{cat_index, class_index, first_value, CLASS, NAME};
use crate::spec::ord;
use crate::sym;
use ckc_rs::hand_rank::{HandRank, HandRankClass, HandRankName};

/// all 65,536 values
#[cfg_attr(kani, kani::proof)]
#[cfg_attr(kani, kani::unwind(10))]
pub fn c06_value_to_class() {
    let v = sym::u16();
    let invalid = v == 0 || v > 7462;
    // priming call on an unrelated arbitrary input: a memo / cache in front of a pure function would show here
    let _ = HandRank::from(v.rotate_left(5) ^ 0x1234).is_a_valid_hand_rank();
    let name = HandRank::determine_name(&v);
    let class = HandRank::determine_class(&v);
    check!(name == NAME[cat_index(v)], "determine_name(v) is the category of ordinal v");
    check!(class == CLASS[class_index(v)], "determine_class(v) is the class of ordinal v");
    check!((name == HandRankName::Invalid) == invalid, "name Invalid iff v == 0 or v > 7462");
    check!((class == HandRankClass::Invalid) == invalid, "class Invalid iff v == 0 or v > 7462");
    let r = HandRank::from(v);
    check!(r.value == v && r.name == name && r.class == class, "from(v) carries v, name, class");
    check!(r.is_a_valid_hand_rank(), "from(v) passes its own consistency test");
    check!(r.is_invalid() == invalid, "is_invalid iff v == 0 or v > 7462");
    let d = HandRank::default();
    check!(d == HandRank::from(0) && d.value == 0 && d.is_invalid(), "default is the conversion of 0");
    cover!(v > 7462, "value above the range");
    cover!(v >= 323 && v <= 1599, "a flush value");
    cover!(v == 0, "zero");
}

/// every one of the 309 classes is the class of a non-empty value range (witness: first_value)
#[cfg_attr(kani, kani::proof)]
#[cfg_attr(kani, kani::unwind(10))]
pub fn c06_class_nonempty() {
    let j = sym::u16();
    sym::assume(j < 309);
    let v = first_value(j);
    check!(v >= 1 && v <= 7462, "witness value in range");
    check!(HandRank::determine_class(&v) == CLASS[j as usize], "class j is produced by its first value");
    if v > 1 {
        let p = v - 1;
        check!(HandRank::determine_class(&p) != CLASS[j as usize], "first value is the start of the range");
    }
    cover!(j == 308, "last class");
    cover!(j == 0, "first class");
}

/// every class is the class of a contiguous range: u between v and w of one class has that class
#[cfg_attr(kani, kani::proof)]
pub fn c06_class_contiguous() {
    let v = sym::u16();
    let u = sym::u16();
    let w = sym::u16();
    sym::assume(v <= u && u <= w);
    let (cv, cu, cw) = (HandRank::determine_class(&v), HandRank::determine_class(&u), HandRank::determine_class(&w));
    if cv == cw && cv != HandRankClass::Invalid {
        check!(cu == cv, "class preimage is an interval");
    }
    let (nv, nu, nw) = (HandRank::determine_name(&v), HandRank::determine_name(&u), HandRank::determine_name(&w));
    if nv == nw && nv != HandRankName::Invalid {
        check!(nu == nv, "category preimage is an interval");
    }
    cover!(cv == cw && v < u && u < w && cv != HandRankClass::Invalid, "three values of one class");
}

/// link between cards, ordinal, category and class: for every five-card shape the class text that
/// the value maps to is the class read off the cards by rule.
#[cfg_attr(kani, kani::proof)]
pub fn c06_cards_link() {
    let r = [sym::u8(), sym::u8(), sym::u8(), sym::u8(), sym::u8()];
    let flush = sym::bool();
    sym::assume(r[0] <= 12 && r[1] <= 12 && r[2] <= 12 && r[3] <= 12 && r[4] <= 12);
    let s = ord::sort5_desc(r);
    sym::assume(s[0] != s[4]); // not five of a kind
    let distinct = s[0] != s[1] && s[1] != s[2] && s[2] != s[3] && s[3] != s[4];
    sym::assume(!flush || distinct);
    let sh = ord::shape(r, flush);
    check!(sh.ord >= 1 && sh.ord <= 7462, "ordinal in range");
    check!(HandRank::determine_name(&sh.ord) == NAME[sh.cat as usize], "category of the value describes the cards");
    check!(HandRank::determine_class(&sh.ord) == CLASS[sh.class as usize], "class of the value describes the cards");
    cover!(sh.cat == ord::CAT_FULL, "a full house");
    cover!(sh.cat == ord::CAT_TWOPAIR, "two pair");
    cover!(sh.cat == ord::CAT_FLUSH && s[0] == 5, "seven-high flush");
}

/// REAL evaluator: the rank reported for a hand describes the hand's actual cards — every hand of five distinct
/// ranks (flushes, straights, high cards; table path) in every slot order
#[cfg_attr(kani, kani::proof)]
#[cfg_attr(kani, kani::unwind(14))]
#[cfg_attr(kani, kani::solver(kissat))]
pub fn c06_hand_class_distinct_ranks() {
    use ckc_rs::cards::HandRanker;
    let (w, r, s) = super::c08::any_five();
    sym::assume(r[0] != r[1] && r[0] != r[2] && r[0] != r[3] && r[0] != r[4] && r[1] != r[2] && r[1] != r[3] && r[1] != r[4] && r[2] != r[3] && r[2] != r[4] && r[3] != r[4]);
    let flush = s[0] == s[1] && s[1] == s[2] && s[2] == s[3] && s[3] == s[4];
    let sh = ord::shape([r[0] as u8, r[1] as u8, r[2] as u8, r[3] as u8, r[4] as u8], flush);
    let hr = ckc_rs::cards::five::Five::from(w).hand_rank();
    check!(hr.name == NAME[sh.cat as usize], "reported category describes the cards");
    check!(hr.class == CLASS[sh.class as usize], "reported class describes the cards");
    check!(hr.value == sh.ord, "reported value is the cards' ordinal");
    cover!(sh.cat == ord::CAT_HIGH && r[0] == 12 && r[1] == 4, "ace-high with a six");
    cover!(sh.cat == ord::CAT_FLUSH, "a flush");
    cover!(sh.cat == ord::CAT_STRAIGHT, "a straight");
}

/// REAL evaluator: the same for every hand with a repeated rank (product path), slots in descending card order
#[cfg_attr(kani, kani::proof)]
#[cfg_attr(kani, kani::unwind(14))]
#[cfg_attr(kani, kani::solver(kissat))]
pub fn c06_hand_class_paired_sorted() {
    use ckc_rs::cards::HandRanker;
    let (w, r, _s) = super::c08::any_five();
    sym::assume(w[0] > w[1] && w[1] > w[2] && w[2] > w[3] && w[3] > w[4]);
    sym::assume(r[0] == r[1] || r[1] == r[2] || r[2] == r[3] || r[3] == r[4]);
    let sh = ord::shape([r[0] as u8, r[1] as u8, r[2] as u8, r[3] as u8, r[4] as u8], false);
    let hr = ckc_rs::cards::five::Five::from(w).hand_rank();
    check!(hr.name == NAME[sh.cat as usize], "reported category describes the cards");
    check!(hr.class == CLASS[sh.class as usize], "reported class describes the cards");
    check!(hr.value == sh.ord, "reported value is the cards' ordinal");
    cover!(sh.cat == ord::CAT_FULL, "a full house");
    cover!(sh.cat == ord::CAT_PAIR, "a pair");
}
