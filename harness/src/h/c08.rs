//! C08 — suit shifting is a rank-preserving 4-cycle and never changes a hand's value.
use crate::spec::cards::*;
use crate::sym;
use ckc_rs::cards::five::Five;
use ckc_rs::cards::four::Four;
use ckc_rs::cards::seven::Seven;
use ckc_rs::cards::six::Six;
use ckc_rs::cards::three::Three;
use ckc_rs::cards::two::Two;
use ckc_rs::cards::{HandRanker, HandValidator};
use ckc_rs::{PokerCard, Shifty};

/// all 52 cards and blank
#[cfg_attr(kani, kani::proof)]
pub fn c08_card_shift() {
    let (w, r, s) = any_card();
    // priming call on an unrelated arbitrary input: a memo / cache in front of a pure function would show here
    let _ = word((r + 3) % 13, (s + 1) % 4).shift_suit();
    let sh = w.shift_suit();
    check!(sh == word(r, (s + 3) % 4), "spades->hearts->diamonds->clubs->spades, rank kept");
    check!(sh.shift_suit().shift_suit().shift_suit() == w, "four shifts restore the card");
    check!(sh != w, "a shift always changes a real card");
    check!(w.next_suit() == crate::spec::consts_gen::SUITS[((s + 3) % 4) as usize], "next_suit");
    let b: u32 = 0;
    check!(b.shift_suit() == 0, "blank stays blank");
    cover!(s == 0, "clubs wrap to spades");
    cover!(s == 3, "spades to hearts");
}

/// spec of the per-word shift on ARBITRARY words (what the real card-level shift does)
fn word_shift(w: u32) -> u32 {
    w.shift_suit()
}

macro_rules! container_shift {
    ($name:ident, $ty:ty, $n:expr) => {
        /// arbitrary words in every slot: the container shifts the word in every slot
        #[cfg_attr(kani, kani::proof)]
        #[cfg_attr(kani, kani::unwind(9))]
        pub fn $name() {
            let a: [u32; $n] = sym::words::<$n>();
            let h = <$ty>::from(a);
            let got = h.shift_suit().to_arr();
            let mut i = 0;
            while i < $n {
                check!(got[i] == word_shift(a[i]), "container shift = per-slot card shift");
                i += 1;
            }
            cover!(is_card(a[0]) && is_card(a[$n - 1]) && a[0] != a[$n - 1], "cards in the first and last slot");
        }
    };
}
container_shift!(c08_shift_two, Two, 2);
container_shift!(c08_shift_three, Three, 3);
container_shift!(c08_shift_four, Four, 4);
container_shift!(c08_shift_five, Five, 5);
container_shift!(c08_shift_six, Six, 6);
container_shift!(c08_shift_seven, Seven, 7);

/// helper: five distinct real cards in any slot order, returns words / ranks / suits
pub fn any_five() -> ([u32; 5], [u32; 5], [u32; 5]) {
    let (w0, r0, s0) = any_card();
    let (w1, r1, s1) = any_card();
    let (w2, r2, s2) = any_card();
    let (w3, r3, s3) = any_card();
    let (w4, r4, s4) = any_card();
    let w = [w0, w1, w2, w3, w4];
    sym::assume(w0 != w1 && w0 != w2 && w0 != w3 && w0 != w4 && w1 != w2 && w1 != w3 && w1 != w4 && w2 != w3 && w2 != w4 && w3 != w4);
    (w, [r0, r1, r2, r3, r4], [s0, s1, s2, s3, s4])
}

/// real evaluator, partition "no repeated rank" (flush / straight / high card tables): value unchanged by any
/// bijective relabelling of the four suits, and by shift_suit
#[cfg_attr(kani, kani::proof)]
#[cfg_attr(kani, kani::unwind(14))]
#[cfg_attr(kani, kani::solver(kissat))]
pub fn c08_value_relabel_distinct_ranks() {
    let (w, r, s) = any_five();
    sym::assume(r[0] != r[1] && r[0] != r[2] && r[0] != r[3] && r[0] != r[4] && r[1] != r[2] && r[1] != r[3] && r[1] != r[4] && r[2] != r[3] && r[2] != r[4] && r[3] != r[4]);
    let p = [sym::u8() as u32, sym::u8() as u32, sym::u8() as u32, sym::u8() as u32];
    sym::assume(p[0] < 4 && p[1] < 4 && p[2] < 4 && p[3] < 4);
    sym::assume(p[0] != p[1] && p[0] != p[2] && p[0] != p[3] && p[1] != p[2] && p[1] != p[3] && p[2] != p[3]);
    let v = Five::from(w).hand_rank_value();
    let rel = [
        word(r[0], p[s[0] as usize]),
        word(r[1], p[s[1] as usize]),
        word(r[2], p[s[2] as usize]),
        word(r[3], p[s[3] as usize]),
        word(r[4], p[s[4] as usize]),
    ];
    check!(Five::from(rel).hand_rank_value() == v, "value unchanged by any consistent relabelling of the suits");
    check!(Five::from(w).shift_suit().hand_rank_value() == v, "value unchanged by shift_suit");
    check!(v != 0, "a real hand has a value");
    cover!(s[0] == s[1] && s[1] == s[2] && s[2] == s[3] && s[3] == s[4] && p[0] == 1, "a flush, relabelled");
    cover!(s[0] != s[1], "a non-flush");
}

/// real evaluator, every hand with a repeated rank (product path), slots in descending card order
#[cfg_attr(kani, kani::proof)]
#[cfg_attr(kani, kani::unwind(14))]
#[cfg_attr(kani, kani::solver(kissat))]
pub fn c08_value_shift_paired_sorted() {
    let (w, r, _s) = any_five();
    sym::assume(w[0] > w[1] && w[1] > w[2] && w[2] > w[3] && w[3] > w[4]);
    sym::assume(r[0] == r[1] || r[1] == r[2] || r[2] == r[3] || r[3] == r[4]);
    let v = Five::from(w).hand_rank_value();
    check!(Five::from(w).shift_suit().hand_rank_value() == v, "value unchanged by shift_suit (paired hands)");
    check!(v != 0, "a real hand has a value");
    cover!(r[0] == r[1] && r[2] == r[3], "two pair");
}

/// six/seven-card value under the three non-trivial shifts (S5, shift variant): the container must shift every
/// slot uniformly and the selection logic must not depend on suits
#[cfg_attr(kani, kani::proof)]
#[cfg_attr(kani, kani::unwind(23))]
#[cfg_attr(kani, kani::stub(<ckc_rs::cards::five::Five as ckc_rs::cards::HandRanker>::hand_rank_value_and_hand, crate::s5::stub_five_shift))]
pub fn c08_value_shift_seven() {
    let w = super::c02::any_seven();
    crate::s5::install_shift(&w);
    let h = Seven::from(w);
    let v = h.hand_rank_value();
    let k = sym::u8() as usize;
    sym::assume(k >= 1 && k <= 3);
    let mut s = h;
    let mut i = 0;
    while i < 3 {
        if i < k {
            s = s.shift_suit();
        }
        i += 1;
    }
    crate::s5::set_shift(k);
    check!(s.hand_rank_value() == v, "seven: k suit shifts keep the value (k = 1, 2, 3)");
    #[cfg(not(kani))]
    super::c02::concrete::families::<7>(|w| {
        let h = Seven::from(w);
        let (s1, v) = (h.shift_suit(), h.hand_rank_value());
        let s2 = s1.shift_suit();
        if s1.hand_rank_value() != v || s2.hand_rank_value() != v || s2.shift_suit().hand_rank_value() != v {
            return Some("concretised on the real evaluator: seven-card value changes under shift_suit");
        }
        None
    });
    cover!(k == 3, "three shifts");
    cover!(k == 1, "one shift");
}

#[cfg_attr(kani, kani::proof)]
#[cfg_attr(kani, kani::unwind(14))]
#[cfg_attr(kani, kani::stub(<ckc_rs::cards::five::Five as ckc_rs::cards::HandRanker>::hand_rank_value_and_hand, crate::s5::stub_five_shift))]
pub fn c08_value_shift_six() {
    let w7 = super::c02::any_seven();
    let w = [w7[0], w7[1], w7[2], w7[3], w7[4], w7[5]];
    crate::s5::install_shift(&w);
    let h = Six::from(w);
    let v = h.hand_rank_value();
    let k = sym::u8() as usize;
    sym::assume(k >= 1 && k <= 3);
    let mut s = h;
    let mut i = 0;
    while i < 3 {
        if i < k {
            s = s.shift_suit();
        }
        i += 1;
    }
    crate::s5::set_shift(k);
    check!(s.hand_rank_value() == v, "six: k suit shifts keep the value (k = 1, 2, 3)");
    #[cfg(not(kani))]
    super::c02::concrete::families::<6>(|w| {
        let h = Six::from(w);
        let (s1, v) = (h.shift_suit(), h.hand_rank_value());
        let s2 = s1.shift_suit();
        if s1.hand_rank_value() != v || s2.hand_rank_value() != v || s2.shift_suit().hand_rank_value() != v {
            return Some("concretised on the real evaluator: six-card value changes under shift_suit");
        }
        None
    });
    cover!(k == 3, "three shifts");
    cover!(k == 1, "one shift");
}
