//! C15 — card bit-sets behave as sets: union, subset, count, validity, ordered peel.
use crate::spec::cards::*;
use crate::sym;
use ckc_rs::cards::binary_card::{BinaryCard, BC64};
use ckc_rs::cards::five::Five;
use ckc_rs::cards::four::Four;
use ckc_rs::cards::seven::Seven;
use ckc_rs::cards::six::Six;
use ckc_rs::cards::three::Three;
use ckc_rs::cards::two::Two;

const ALL52: u64 = (1u64 << 52) - 1;

fn or_bits<const N: usize>(a: [u32; N]) -> u64 {
    let mut b = 0u64;
    let mut i = 0;
    while i < N {
        b |= set_bit_of_word(a[i]);
        i += 1;
    }
    b
}

/// arbitrary words in every slot, every hand size: the set holds exactly the distinct real cards among the slots
#[cfg_attr(kani, kani::proof)]
#[cfg_attr(kani, kani::unwind(9))]
pub fn c15_from_hands() {
    let a: [u32; 7] = sym::words::<7>();
    check!(<BinaryCard as BC64>::from_two(Two::from([a[0], a[1]])) == or_bits([a[0], a[1]]), "from_two");
    check!(<BinaryCard as BC64>::from_three(Three::from([a[0], a[1], a[2]])) == or_bits([a[0], a[1], a[2]]), "from_three");
    check!(<BinaryCard as BC64>::from_four(Four::from([a[0], a[1], a[2], a[3]])) == or_bits([a[0], a[1], a[2], a[3]]), "from_four");
    check!(<BinaryCard as BC64>::from_five(Five::from([a[0], a[1], a[2], a[3], a[4]])) == or_bits([a[0], a[1], a[2], a[3], a[4]]), "from_five");
    check!(<BinaryCard as BC64>::from_six(Six::from([a[0], a[1], a[2], a[3], a[4], a[5]])) == or_bits([a[0], a[1], a[2], a[3], a[4], a[5]]), "from_six");
    let s7 = <BinaryCard as BC64>::from_seven(Seven::from(a));
    check!(s7 == or_bits(a), "from_seven");
    check!(s7 & !ALL52 == 0, "no overflow bits from a hand");
    cover!(is_card(a[0]) && a[0] == a[6] && a[3] == 0, "a repeated card and a blank");
    cover!(s7.count_ones() == 7, "seven distinct cards");
}

/// all pairs of 64-bit values
#[cfg_attr(kani, kani::proof)]
pub fn c15_set_ops() {
    let b = sym::u64();
    let c = sym::u64();
    check!(b.fold_in(c) == (b | c), "fold_in is union");
    check!(b.has(c) == ((c & !b) == 0), "has is the subset test");
    check!(b.number_of_cards() == b.count_ones(), "count is the number of members");
    check!(b.is_single_card() == (b != 0 && (b & (b - 1)) == 0), "single card iff exactly one member");
    check!(BC64::is_valid(&b) == (b != 0 && (b >> 52) == 0), "valid iff non-empty and nothing above the 52 card bits");
    check!(b.as_u64() == b, "as_u64");
    check!(b.fold_in(c).has(b) && b.fold_in(c).has(c), "a union contains both parts");
    cover!(b != 0 && (b >> 52) == 0 && c == 1u64 << 52, "valid set, overflow probe");
    cover!(b == 1u64 << 52, "lowest overflow bit alone");
    cover!(b == ALL52, "full deck");
}

/// one peel step from an ARBITRARY set (no hidden state, so this covers every peel history)
#[cfg_attr(kani, kani::proof)]
#[cfg_attr(kani, kani::unwind(53))]
pub fn c15_peel_step() {
    let b0 = sym::u64();
    // priming call on an unrelated arbitrary input: a memo / cache in front of a pure function would show here
    let mut x0 = b0;
    let _ = x0.peel();
    let b = sym::u64();
    let mut x = b;
    let r = x.peel();
    let members = b & ALL52;
    if members != 0 {
        let top = 1u64 << (63 - members.leading_zeros());
        check!(r == top, "peel returns the highest remaining card in deck order");
        check!(x == b ^ top, "peel removes exactly that card");
    } else {
        check!(r == 0, "nothing to peel: blank");
        check!(x == b, "nothing to peel: set unchanged");
    }
    cover!(members == 0 && b != 0, "only overflow bits");
    cover!(members.count_ones() > 1 && (b >> 52) != 0, "several cards and overflow bits");
    cover!(members == 1, "deuce of clubs alone");
}

/// three peels in a row list members in deck order (redundant with the step harness; guards the induction)
#[cfg_attr(kani, kani::proof)]
#[cfg_attr(kani, kani::unwind(53))]
pub fn c15_peel_sequence() {
    let b = sym::u64();
    sym::assume(b & !ALL52 == 0 && b.count_ones() == 2);
    let mut x = b;
    let r1 = x.peel();
    let r2 = x.peel();
    let r3 = x.peel();
    let r4 = x.peel();
    check!(r1 > r2 && r2 > 0, "members come out in deck order");
    check!((r1 | r2) == b, "every member is listed once");
    check!(r3 == 0 && r4 == 0 && x == 0, "then blank, set stays empty");
    cover!(r1 == 1u64 << 51 && r2 == 1, "ace of spades and deuce of clubs");
}

/// Bit-set parser over LONG token streams: 0..=64 tokens (more than a deck holds), every token an arbitrary
/// member of {52 cards, blank}, repeats allowed: the result is exactly the set of real cards among ALL tokens —
/// no cap on the number of tokens read, no early exit once the set is full.  Token-stream abstraction S6-long
/// (one iterator, token k parses to LV[k]); natively the text is rendered and the real splitter / token parser run.
#[cfg_attr(kani, kani::proof)]
#[cfg_attr(kani, kani::unwind(67))]
#[cfg_attr(kani, kani::stub(<core::str::SplitWhitespace<'_> as core::iter::Iterator>::next, crate::s6::stub_next_long))]
#[cfg_attr(kani, kani::stub(<u32 as ckc_rs::PokerCard>::from_index, crate::s6::stub_from_index_long))]
pub fn c15_from_index_long() {
    let n = sym::u8() as usize;
    sym::assume(n <= crate::s6::LMAX);
    let mut v = [0u32; crate::s6::LMAX];
    let mut k = 0;
    while k < crate::s6::LMAX {
        v[k] = any_card_or_blank();
        k += 1;
    }
    let text = crate::s6::install_long(n, v);
    let got = <BinaryCard as BC64>::from_index(text);
    let mut want = 0u64;
    let mut k = 0;
    while k < crate::s6::LMAX {
        if k < n {
            want |= set_bit_of_word(v[k]);
        }
        k += 1;
    }
    check!(got == want, "bit-set parser = set of the real cards among all tokens of a long stream");
    cover!(n == 64 && v[63] != 0 && v[63] != v[0], "64 tokens, the last one a real card");
    cover!(n == 53, "one token more than a deck");
    cover!(n == 0, "no tokens");
}
