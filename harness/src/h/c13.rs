//! C13 — flush, straight and wheel predicates agree with the hand's actual category.
use super::c08::any_five;
use crate::spec::ord::{self, sort5_desc};
use crate::sym;
use ckc_rs::cards::five::Five;
use ckc_rs::cards::HandRanker;
use ckc_rs::hand_rank::HandRankName;

fn spec_straight(r: [u32; 5]) -> (bool, bool) {
    let s = sort5_desc([r[0] as u8, r[1] as u8, r[2] as u8, r[3] as u8, r[4] as u8]);
    let distinct = s[0] != s[1] && s[1] != s[2] && s[2] != s[3] && s[3] != s[4];
    let wheel = s[0] == 12 && s[1] == 3 && s[2] == 2 && s[3] == 1 && s[4] == 0;
    (distinct && (s[0] - s[4] == 4 || wheel), wheel)
}

/// every hand of five distinct cards, any slot order: the four predicates and the bit folds
#[cfg_attr(kani, kani::proof)]
pub fn c13_predicates() {
    let (w, r, s) = any_five();
    let h = Five::from(w);
    let flush = s[0] == s[1] && s[1] == s[2] && s[2] == s[3] && s[3] == s[4];
    let (straight, wheel) = spec_straight(r);
    check!(h.is_flush() == flush, "is_flush iff all five share a suit");
    check!(h.is_straight() == straight, "is_straight iff five distinct consecutive ranks (ace may play low)");
    check!(h.is_straight_flush() == (straight && flush), "is_straight_flush iff both");
    check!(h.is_wheel() == wheel, "is_wheel exactly for 5-4-3-2-A");
    let bits = (1u32 << r[0]) | (1 << r[1]) | (1 << r[2]) | (1 << r[3]) | (1 << r[4]);
    check!(h.or_rank_bits() == bits, "or_rank_bits is the set of ranks present");
    check!(h.or_bits() >> 16 == bits, "or_bits carries the rank set");
    check!((h.and_bits() & 0xF000 != 0) == flush, "and_bits keeps a suit bit iff flush");
    cover!(straight && !flush && !wheel, "a plain straight");
    cover!(wheel && flush, "a steel wheel");
    cover!(!straight && r[0] != r[1] && (r[0] == r[2] || r[1] == r[3]), "a repeated rank");
    cover!(flush && !straight, "a plain flush");
}

/// deprecated free functions agree with the methods, for ARBITRARY words
#[cfg_attr(kani, kani::proof)]
#[allow(deprecated)]
pub fn c13_free_functions() {
    let a: [u32; 5] = sym::words::<5>();
    let h = Five::from(a);
    check!(ckc_rs::evaluate::is_flush(a) == h.is_flush(), "evaluate::is_flush == Five::is_flush");
    check!(ckc_rs::evaluate::or_rank_bits(a) == h.or_rank_bits() as usize, "evaluate::or_rank_bits == Five::or_rank_bits");
    cover!(h.is_flush(), "a flush-like word set");
    cover!(!h.is_flush() && a[0] != 0, "not a flush");
}

/// agreement with the category obtained by ranking — hands with five distinct ranks (table path), any order
#[cfg_attr(kani, kani::proof)]
#[cfg_attr(kani, kani::unwind(14))]
#[cfg_attr(kani, kani::solver(kissat))]
pub fn c13_category_distinct_ranks() {
    let (w, r, _s) = any_five();
    sym::assume(r[0] != r[1] && r[0] != r[2] && r[0] != r[3] && r[0] != r[4] && r[1] != r[2] && r[1] != r[3] && r[1] != r[4] && r[2] != r[3] && r[2] != r[4] && r[3] != r[4]);
    let h = Five::from(w);
    let name = h.hand_rank().name;
    check!((name == HandRankName::StraightFlush) == h.is_straight_flush(), "category StraightFlush iff is_straight_flush");
    check!((name == HandRankName::Flush) == (h.is_flush() && !h.is_straight()), "category Flush iff flush and not straight");
    check!((name == HandRankName::Straight) == (h.is_straight() && !h.is_flush()), "category Straight iff straight and not flush");
    check!((name == HandRankName::HighCard) == (!h.is_straight() && !h.is_flush()), "category HighCard iff neither");
    cover!(name == HandRankName::Straight, "a straight");
    cover!(name == HandRankName::Flush, "a flush");
}

/// agreement with the category — hands with a repeated rank (product path), slots in descending card order
#[cfg_attr(kani, kani::proof)]
#[cfg_attr(kani, kani::unwind(14))]
#[cfg_attr(kani, kani::solver(kissat))]
pub fn c13_category_paired_sorted() {
    let (w, r, _s) = any_five();
    sym::assume(w[0] > w[1] && w[1] > w[2] && w[2] > w[3] && w[3] > w[4]);
    sym::assume(r[0] == r[1] || r[1] == r[2] || r[2] == r[3] || r[3] == r[4]);
    let h = Five::from(w);
    let name = h.hand_rank().name;
    check!(name != HandRankName::StraightFlush && name != HandRankName::Flush && name != HandRankName::Straight && name != HandRankName::HighCard && name != HandRankName::Invalid,
        "a hand with a repeated rank ranks as pair / two pair / trips / full house / quads");
    check!(!h.is_straight() && !h.is_straight_flush() && !h.is_flush() && !h.is_wheel(), "and none of the predicates fires");
    let sh = ord::shape([r[0] as u8, r[1] as u8, r[2] as u8, r[3] as u8, r[4] as u8], false);
    check!(name == crate::spec::classes::NAME[sh.cat as usize], "category is the one read off the cards");
    cover!(r[0] == r[1] && r[0] == 11 && r[4] == 8 && r[0] != r[2], "a pair of kings inside an ace-free five-rank window");
}
