//! C01 — the five-card rank value is the hand's exact poker strength ordinal.
//! All harnesses run the REAL evaluator (tables, binary search) on symbolic cards.  They call the primitive
//! `hand_rank_value_and_hand` once; the remaining entry points (trait defaults, validated ranking, the free
//! function) are tied to it for every valid hand by the c04_wiring_five harness.
use super::c08::any_five;
use crate::spec::cards::*;
use crate::spec::ord::{self, WITNESS};
use crate::sym;
use ckc_rs::cards::five::Five;
use ckc_rs::cards::{HandRanker, HandValidator};

fn ranks_u8(r: [u32; 5]) -> [u8; 5] {
    [r[0] as u8, r[1] as u8, r[2] as u8, r[3] as u8, r[4] as u8]
}

fn distinct_ranks(r: [u32; 5]) -> bool {
    r[0] != r[1] && r[0] != r[2] && r[0] != r[3] && r[0] != r[4] && r[1] != r[2] && r[1] != r[3] && r[1] != r[4] && r[2] != r[3] && r[2] != r[4] && r[3] != r[4]
}

/// P1 — every flush (five cards of one suit), any slot order
#[cfg_attr(kani, kani::proof)]
#[cfg_attr(kani, kani::unwind(14))]
#[cfg_attr(kani, kani::solver(kissat))]
pub fn c01_flush_any_order() {
    let (w, r, s) = any_five();
    sym::assume(s[0] == s[1] && s[1] == s[2] && s[2] == s[3] && s[3] == s[4]);
    let (v, hand) = Five::from(w).hand_rank_value_and_hand();
    check!(v == ord::ord(ranks_u8(r), true), "value is the strength ordinal (flush / straight flush)");
    check!(sym::same(hand.to_arr(), w), "the reported hand is the input unchanged");
    cover!(v == 1, "a royal flush");
    cover!(v == 1599, "the weakest flush");
    cover!(v == 10 && w[0] < w[1], "a steel wheel, ace not first");
}

/// P2 — five distinct ranks, not all one suit, any slot order
#[cfg_attr(kani, kani::proof)]
#[cfg_attr(kani, kani::unwind(14))]
#[cfg_attr(kani, kani::solver(kissat))]
pub fn c01_distinct_any_order() {
    let (w, r, s) = any_five();
    sym::assume(distinct_ranks(r));
    sym::assume(!(s[0] == s[1] && s[1] == s[2] && s[2] == s[3] && s[3] == s[4]));
    let (v, hand) = Five::from(w).hand_rank_value_and_hand();
    check!(v == ord::ord(ranks_u8(r), false), "value is the strength ordinal (straight / high card)");
    check!(sym::same(hand.to_arr(), w), "the reported hand is the input unchanged");
    cover!(v == 7462, "7-5-4-3-2 unsuited");
    cover!(v == 1609, "a wheel");
    cover!(v == 6186, "ace-king-queen-jack-nine");
}

/// P3 — every hand with a repeated rank, slots in descending card order
#[cfg_attr(kani, kani::proof)]
#[cfg_attr(kani, kani::unwind(14))]
#[cfg_attr(kani, kani::solver(kissat))]
pub fn c01_paired_sorted() {
    let (w, r, _s) = any_five();
    sym::assume(w[0] > w[1] && w[1] > w[2] && w[2] > w[3] && w[3] > w[4]);
    sym::assume(r[0] == r[1] || r[1] == r[2] || r[2] == r[3] || r[3] == r[4]);
    let (v, hand) = Five::from(w).hand_rank_value_and_hand();
    check!(v == ord::ord(ranks_u8(r), false), "value is the strength ordinal (quads / full house / trips / two pair / pair)");
    check!(sym::same(hand.to_arr(), w), "the reported hand is the input unchanged");
    cover!(v == 11, "four aces with a king");
    cover!(v == 6185, "deuces with 5-4-3");
    cover!(v == 2468, "aces and kings with a queen");
}

macro_rules! paired_any_order {
    ($name:ident, $j:expr) => {
        /// P4_j — every hand with a repeated rank, ANY slot order, partition: rank of slot 0 is j
        #[cfg_attr(kani, kani::proof)]
        #[cfg_attr(kani, kani::unwind(14))]
        #[cfg_attr(kani, kani::solver(kissat))]
        pub fn $name() {
            let (w, r, _s) = any_five();
            sym::assume(r[0] == $j);
            sym::assume(!distinct_ranks(r));
            let (v, hand) = Five::from(w).hand_rank_value_and_hand();
            check!(v == ord::ord(ranks_u8(r), false), "value is the strength ordinal for every slot order");
            check!(sym::same(hand.to_arr(), w), "the reported hand is the input unchanged");
            cover!(r[1] != $j && r[2] != $j && r[3] != $j && r[4] != $j, "slot 0 is a kicker");
            cover!(r[4] == $j && r[1] != $j, "slot 0 pairs with the last slot");
        }
    };
}
paired_any_order!(c01_paired_any_order_r00, 0);
paired_any_order!(c01_paired_any_order_r01, 1);
paired_any_order!(c01_paired_any_order_r02, 2);
paired_any_order!(c01_paired_any_order_r03, 3);
paired_any_order!(c01_paired_any_order_r04, 4);
paired_any_order!(c01_paired_any_order_r05, 5);
paired_any_order!(c01_paired_any_order_r06, 6);
paired_any_order!(c01_paired_any_order_r07, 7);
paired_any_order!(c01_paired_any_order_r08, 8);
paired_any_order!(c01_paired_any_order_r09, 9);
paired_any_order!(c01_paired_any_order_r10, 10);
paired_any_order!(c01_paired_any_order_r11, 11);
paired_any_order!(c01_paired_any_order_r12, 12);

/// L1 — the three folds the evaluator reads the hand through are unchanged by swapping two adjacent slots
/// (adjacent transpositions generate every slot order); arbitrary 32-bit words whose prime field is a prime
#[cfg_attr(kani, kani::proof)]
#[cfg_attr(kani, kani::solver(kissat))]
pub fn c01_folds_swap() {
    let (w, _r, _s) = any_five();
    let k = sym::u8() as usize;
    sym::assume(k < 4);
    let mut x = w;
    x[k] = w[k + 1];
    x[k + 1] = w[k];
    let (h, g) = (Five::from(w), Five::from(x));
    check!(h.and_bits() == g.and_bits(), "and_bits ignores slot order");
    check!(h.or_bits() == g.or_bits() && h.or_rank_bits() == g.or_rank_bits(), "or_bits ignores slot order");
    check!(h.multiply_primes() == g.multiply_primes(), "multiply_primes ignores slot order");
    check!(h.is_flush() == g.is_flush(), "is_flush ignores slot order");
    cover!(k == 3, "last two slots swapped");
    cover!(k == 0, "first two slots swapped");
}

/// (b) — every value 1..=7462 is produced: the real evaluator on the k-th witness hand returns k
#[cfg_attr(kani, kani::proof)]
#[cfg_attr(kani, kani::unwind(14))]
#[cfg_attr(kani, kani::solver(kissat))]
pub fn c01_every_value_produced() {
    let k = sym::u16();
    sym::assume(k >= 1 && k <= 7462);
    let w = WITNESS[k as usize];
    let h = Five::from(w);
    let (v, _) = h.hand_rank_value_and_hand();
    check!(v == k, "the k-th witness hand ranks k");
    cover!(k == 7462, "the last ordinal");
    cover!(k == 1, "the first ordinal");
    cover!(k == 3326, "the best pair");
}

/// the witness hands are valid hands (five distinct real cards) — needed for "produced by some hand"
#[cfg_attr(kani, kani::proof)]
#[cfg_attr(kani, kani::unwind(9))]
pub fn c01_witness_valid() {
    let k = sym::u16();
    sym::assume(k >= 1 && k <= 7462);
    let w = WITNESS[k as usize];
    check!(Five::from(w).is_valid(), "witness hand is five distinct real cards (by the repository's own validator)");
    check!(is_card(w[0]) && is_card(w[1]) && is_card(w[2]) && is_card(w[3]) && is_card(w[4]), "witness slots are cards (S1)");
    cover!(k == 323, "the best flush");
}

/// HISTORY on the PRODUCT path of the REAL evaluator: a hand with a repeated rank ranked after another such hand
/// gives its own ordinal — no memo, hint or truncated key between `multiply_primes`, `find_in_products`,
/// `not_unique` and the PRODUCTS / VALUES tables.  Both hands in descending slot order (the order-freedom of the
/// folds is c01_folds_swap); this is also the evidence behind the S5 assumption "the five-card evaluator is a
/// function of the card set" used by the six/seven-card harnesses (C02, C03, C08, C09).
#[cfg_attr(kani, kani::proof)]
#[cfg_attr(kani, kani::unwind(14))]
#[cfg_attr(kani, kani::solver(kissat))]
pub fn c01_five_history_paired() {
    let (w0, r0, _s0) = any_five();
    let (w1, r1, _s1) = any_five();
    sym::assume(w0[0] > w0[1] && w0[1] > w0[2] && w0[2] > w0[3] && w0[3] > w0[4]);
    sym::assume(w1[0] > w1[1] && w1[1] > w1[2] && w1[2] > w1[3] && w1[3] > w1[4]);
    sym::assume(r0[0] == r0[1] || r0[1] == r0[2] || r0[2] == r0[3] || r0[3] == r0[4]);
    sym::assume(r1[0] == r1[1] || r1[1] == r1[2] || r1[2] == r1[3] || r1[3] == r1[4]);
    let _ = Five::from(w0).hand_rank_value();
    let v1 = Five::from(w1).hand_rank_value();
    check!(v1 == ord::ord(ranks_u8(r1), false), "value of a paired hand ranked after another paired hand is its own ordinal");
    cover!(!sym::same(w0, w1) && r0[0] != r1[0], "two different paired hands");
    cover!(sym::same(w0, w1), "the same hand twice");
}

/// HISTORY on the REAL evaluator: ranking a five-card hand after another one has been ranked gives the hand's own
/// ordinal (no hidden state in the five-card path).  Both hands range over the table path (five distinct ranks,
/// flush or not), any slot order.
#[cfg_attr(kani, kani::proof)]
#[cfg_attr(kani, kani::unwind(14))]
#[cfg_attr(kani, kani::solver(kissat))]
pub fn c01_five_history_distinct() {
    let (w0, r0, _s0) = any_five();
    let (w1, r1, s1) = any_five();
    sym::assume(distinct_ranks(r0) && distinct_ranks(r1));
    let (h0, h1) = (Five::from(w0), Five::from(w1));
    let _ = h0.hand_rank_value();
    let _ = h0.hand_rank_value_validated();
    let flush1 = s1[0] == s1[1] && s1[1] == s1[2] && s1[2] == s1[3] && s1[3] == s1[4];
    let want = ord::ord(ranks_u8(r1), flush1);
    check!(h1.hand_rank_value() == want, "value of a hand ranked after another hand is its own ordinal");
    check!(h1.hand_rank_value_validated() == want, "validated value of a hand ranked after another hand is its own ordinal");
    cover!(flush1 && w0[0] != w1[0], "a flush after a different hand");
    cover!((w0[0] ^ w0[1] ^ w0[2] ^ w0[3] ^ w0[4]) == (w1[0] ^ w1[1] ^ w1[2] ^ w1[3] ^ w1[4]) && !sym::same(w0, w1), "different hands with the same XOR signature");
}
