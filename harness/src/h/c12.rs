//! C12 — text parsing is total; a token is a card iff it starts with rank+suit symbols.
use crate::s6;
use crate::spec::cards::*;
use crate::spec::consts_gen::{RANKS, SUITS};
use crate::sym;
use ckc_rs::cards::binary_card::{BinaryCard, BC64};
use ckc_rs::cards::five::Five;
use ckc_rs::cards::four::Four;
use ckc_rs::cards::seven::Seven;
use ckc_rs::cards::six::Six;
use ckc_rs::cards::three::Three;
use ckc_rs::cards::two::Two;
use ckc_rs::{CKCNumber, CardRank, CardSuit, HandError, PokerCard};

/// every Unicode scalar value (1,114,112 - surrogates)
#[cfg_attr(kani, kani::proof)]
pub fn c12_symbol_tables() {
    let c = sym::char();
    // priming call on an unrelated arbitrary input: a memo / cache in front of a pure function would show here
    let _ = (CardRank::from_char('K'), CardSuit::from_char('♦'));
    check!(CardRank::from_char(c) == RANKS[rank_of_char(c) as usize], "rank symbols: A K Q J T 0 9-2 in either case, nothing else");
    check!(CardSuit::from_char(c) == SUITS[suit_of_char(c) as usize], "suit symbols: S H D C either case, filled or outline glyph, nothing else");
    cover!(c == '♡', "an outline glyph");
    cover!(c as u32 > 0xFFFF, "a supplementary-plane character");
    cover!(c == '0', "zero is a ten");
}

/// independent UTF-8 decoder for the first scalar of a VALID string: (code point, byte length)
fn first_scalar(b: &[u8; 8], at: usize) -> (u32, usize) {
    let b0 = b[at] as u32;
    if b0 < 0x80 {
        (b0, 1)
    } else if b0 < 0xE0 {
        (((b0 & 0x1F) << 6) | (b[at + 1] as u32 & 0x3F), 2)
    } else if b0 < 0xF0 {
        (((b0 & 0x0F) << 12) | ((b[at + 1] as u32 & 0x3F) << 6) | (b[at + 2] as u32 & 0x3F), 3)
    } else {
        (((b0 & 0x07) << 18) | ((b[at + 1] as u32 & 0x3F) << 12) | ((b[at + 2] as u32 & 0x3F) << 6) | (b[at + 3] as u32 & 0x3F), 4)
    }
}

/// every valid UTF-8 string of at most 8 bytes as one token (tails, single characters, empty included)
#[cfg_attr(kani, kani::proof)]
#[cfg_attr(kani, kani::unwind(10))]
pub fn c12_token() {
    let raw = sym::u64();
    let bytes: [u8; 8] = raw.to_le_bytes();
    let len = sym::u8() as usize;
    sym::assume(len <= 8);
    let s = match core::str::from_utf8(&bytes[..len]) {
        Ok(s) => s,
        Err(_) => {
            sym::assume(false);
            return;
        }
    };
    // priming call on an unrelated arbitrary input: a memo / cache in front of a pure function would show here
    let _ = <CKCNumber as PokerCard>::from_index("Q♥");
    let got = <CKCNumber as PokerCard>::from_index(s);
    let (gr, gs) = ckc_rs::parse::get_rank_and_suit(s);
    // expected, from the raw bytes
    let mut want = 0u32;
    let mut wr = 13u32;
    let mut ws = 4u32;
    if len > 0 {
        let (c0, n0) = first_scalar(&bytes, 0);
        if n0 < len {
            let (c1, _n1) = first_scalar(&bytes, n0);
            let r = rank_of_char(char::from_u32(c0).unwrap_or('_'));
            let su = suit_of_char(char::from_u32(c1).unwrap_or('_'));
            wr = r;
            ws = su;
            if r <= 12 && su <= 3 {
                want = word(r, su);
            }
        }
    }
    check!(got == want, "token -> card of its first two symbols, or blank");
    check!(gr == RANKS[wr as usize] && gs == SUITS[ws as usize], "get_rank_and_suit reads the first two characters (blank/blank when fewer than two)");
    check!(got == 0 || is_card(got), "result is a card or blank");
    cover!(want != 0 && len == 8, "a card with a tail");
    cover!(want != 0 && len == 4, "rank letter plus a 3-byte glyph");
    cover!(len == 1, "a single character");
    cover!(len == 0, "the empty token");
    cover!(len >= 5 && bytes[0] >= 0xF0, "a 4-byte first character");
}

/// rendering any card with its rank and suit characters parses back to the same card (52 x 2 renderings)
#[cfg_attr(kani, kani::proof)]
#[cfg_attr(kani, kani::unwind(10))]
pub fn c12_roundtrip() {
    let (w, _r, _s) = any_card();
    let glyph = sym::bool();
    let rc = w.get_rank_char();
    let sc = if glyph { w.get_suit_char() } else { w.get_suit_letter() };
    let mut buf = [0u8; 8];
    let n0 = rc.encode_utf8(&mut buf).len();
    let n1 = sc.encode_utf8(&mut buf[n0..]).len();
    let s = match core::str::from_utf8(&buf[..n0 + n1]) {
        Ok(s) => s,
        Err(_) => {
            check!(false, "rendering is valid UTF-8");
            return;
        }
    };
    check!(<CKCNumber as PokerCard>::from_index(s) == w, "render then parse is the identity on cards");
    cover!(glyph, "glyph rendering");
    cover!(!glyph, "letter rendering");
}

macro_rules! parser_clause {
    ($ty:ty, $n:expr, $text:expr, $cnt:expr, $v:expr) => {{
        s6::rewind();
        let r = <$ty>::try_from($text);
        if $cnt < $n {
            check!(r == Err(HandError::InvalidIndex), "fewer tokens than slots: InvalidIndex");
        } else {
            match r {
                Ok(h) => {
                    let a = h.to_arr();
                    let mut i = 0;
                    while i < $n {
                        check!(a[i] == $v[i], "slot k holds the card of token k");
                        i += 1;
                    }
                }
                Err(_) => check!(false, "enough tokens: parsing succeeds"),
            }
        }
    }};
}

/// hand parsers of every size over an abstract token stream of 0..=9 tokens with arbitrary token values
#[cfg_attr(kani, kani::proof)]
#[cfg_attr(kani, kani::unwind(11))]
#[cfg_attr(kani, kani::stub(<core::str::SplitWhitespace<'_> as core::iter::Iterator>::next, crate::s6::stub_next))]
#[cfg_attr(kani, kani::stub(<u32 as ckc_rs::PokerCard>::from_index, crate::s6::stub_from_index))]
pub fn c12_hand_parsers() {
    let n = sym::u8() as usize;
    sym::assume(n <= 9);
    let mut v = [0u32; 9];
    let mut k = 0;
    while k < 9 {
        v[k] = any_card_or_blank();
        k += 1;
    }
    let text = s6::install(n, v);
    parser_clause!(Two, 2, text, n, v);
    parser_clause!(Three, 3, text, n, v);
    parser_clause!(Four, 4, text, n, v);
    parser_clause!(Five, 5, text, n, v);
    parser_clause!(Six, 6, text, n, v);
    parser_clause!(Seven, 7, text, n, v);
    s6::rewind();
    match ckc_rs::parse::five_from_index(text) {
        None => check!(n < 5, "parse::five_from_index fails only when tokens run out"),
        Some(a) => {
            check!(n >= 5, "parse::five_from_index needs five tokens");
            let mut i = 0;
            while i < 5 {
                check!(a[i] == v[i], "parse::five_from_index fills slots in token order");
                i += 1;
            }
        }
    }
    // bit-set parser folds EVERY token in
    s6::rewind();
    let got = <BinaryCard as BC64>::from_index(text);
    let mut want = 0u64;
    let mut k = 0;
    while k < 9 {
        if k < n {
            want |= set_bit_of_word(v[k]);
        }
        k += 1;
    }
    check!(got == want, "bit-set parser = set of the real cards among all tokens");
    cover!(n == 9, "more tokens than any hand has slots");
    cover!(n == 4, "four tokens");
    cover!(n == 0, "no tokens");
    cover!(n == 7 && v[6] != 0 && v[0] == 0, "seven tokens, first one unparseable");
}

/// ASCII whitespace per `char::is_whitespace` restricted to ASCII
fn ascii_ws(b: u8) -> bool {
    b == b' ' || (b >= 0x09 && b <= 0x0D)
}

/// hand-written tokenizer over ASCII bytes: start offsets and lengths of the first two tokens
fn two_tokens(b: &[u8; 8], len: usize) -> (usize, [(usize, usize); 2]) {
    let mut toks = [(0usize, 0usize); 2];
    let mut n = 0usize;
    let mut i = 0usize;
    let mut start = 8usize; // 8 = not inside a token
    while i <= len {
        let boundary = i == len || ascii_ws(b[i]);
        if boundary {
            if start != 8 {
                if n < 2 {
                    toks[n] = (start, i - start);
                }
                n += 1;
                start = 8;
            }
        } else if start == 8 {
            start = i;
        }
        i += 1;
    }
    (n, toks)
}

fn ascii_token_card(b: &[u8; 8], t: (usize, usize)) -> u32 {
    if t.1 < 2 {
        return 0;
    }
    let r = rank_of_char(b[t.0] as char);
    let s = suit_of_char(b[t.0 + 1] as char);
    if r <= 12 && s <= 3 {
        word(r, s)
    } else {
        0
    }
}

/// RAW text: `Two::try_from` on every ASCII string of at most 5 bytes, real `split_whitespace`, against a
/// hand-written tokenizer (cross-check of the S6 token-stream abstraction on the real splitter)
#[cfg_attr(kani, kani::proof)]
#[cfg_attr(kani, kani::unwind(8))]
pub fn c12_raw_two() {
    let raw = sym::u64();
    let bytes: [u8; 8] = raw.to_le_bytes();
    let len = sym::u8() as usize;
    sym::assume(len <= 5);
    let mut i = 0;
    while i < 5 {
        sym::assume(i >= len || bytes[i] < 0x80);
        i += 1;
    }
    let text: &'static str = sym::leak_ascii(&bytes, len);
    let (n, toks) = two_tokens(&bytes, len);
    let r = Two::try_from(text);
    if n < 2 {
        check!(r == Err(HandError::InvalidIndex), "raw text with fewer than two tokens: InvalidIndex");
    } else {
        match r {
            Ok(h) => {
                check!(h.to_arr()[0] == ascii_token_card(&bytes, toks[0]), "first slot = card of the first token");
                check!(h.to_arr()[1] == ascii_token_card(&bytes, toks[1]), "second slot = card of the second token");
            }
            Err(_) => check!(false, "two tokens: parsing succeeds"),
        }
    }
    cover!(n == 2 && len == 5, "two two-character tokens and one separator");
    cover!(n == 3, "three one-character tokens");
    cover!(n == 0 && len == 5, "only whitespace");
}
