//! C20 — multiples flags leave card fields intact, strip cleanly, and dominate order.
use crate::spec::cards::*;
use crate::sym;
use ckc_rs::PokerCard;

fn flagged(w: u32, m: u8) -> u32 {
    let mut x = w;
    if m & 1 != 0 {
        x = x.flag_as_pair();
    }
    if m & 2 != 0 {
        x = x.flag_as_trips();
    }
    if m & 4 != 0 {
        x = x.flag_as_quads();
    }
    x
}

/// 52 cards x 8 mark combinations x 52 unmarked cards
#[cfg_attr(kani, kani::proof)]
pub fn c20_flags() {
    let (w, _r, _s) = any_card();
    let m = sym::u8();
    sym::assume(m < 8);
    let (u, _, _) = any_card();
    // priming call on an unrelated arbitrary input: a memo / cache in front of a pure function would show here
    let _ = flagged(u, 7).strip_multiples_flags();
    let x = flagged(w, m);
    check!(x & 0x1FFF_FFFF == w, "only bits 29-31 change");
    check!(x >> 29 == m as u32, "exactly the requested marks are set (pair=bit29, trips=bit30, quads=bit31)");
    check!(x.get_card_rank() == w.get_card_rank(), "rank unchanged");
    check!(x.get_card_suit() == w.get_card_suit(), "suit unchanged");
    check!(x.get_rank_prime() == w.get_rank_prime(), "prime unchanged");
    check!(x.get_rank_bit() == w.get_rank_bit() && x.get_rank_flag() == w.get_rank_flag(), "rank bit unchanged");
    check!(x.get_suit_bit() == w.get_suit_bit() && x.get_suit_flag() == w.get_suit_flag(), "suit bit unchanged");
    check!(x.get_rank_char() == w.get_rank_char(), "rank char unchanged");
    check!(x.get_suit_char() == w.get_suit_char() && x.get_suit_letter() == w.get_suit_letter(), "suit chars unchanged");
    check!(flagged(x, m) == x, "marking is idempotent");
    check!(x.flag_as_pair().flag_as_pair() == x.flag_as_pair(), "pair mark idempotent");
    check!(x.flag_as_trips().flag_as_trips() == x.flag_as_trips(), "trips mark idempotent");
    check!(x.flag_as_quads().flag_as_quads() == x.flag_as_quads(), "quads mark idempotent");
    check!(x.strip_multiples_flags() == w, "strip restores the card");
    if m != 0 {
        check!(x > u, "every marked word is above every unmarked card");
    }
    check!(w.flag_as_quads() > u.flag_as_trips() && w.flag_as_trips() > u.flag_as_pair(), "quads > trips > pair, any cards");
    check!(w.flag_as_quads() > w.flag_as_trips() && w.flag_as_trips() > w.flag_as_pair() && w.flag_as_pair() > w, "quads > trips > pair > plain on one card");
    cover!(m == 7, "all three marks");
    cover!(m == 1 && u > w, "pair mark on a card lower than the unmarked one");
}

/// field independence for any word without flag bits
#[cfg_attr(kani, kani::proof)]
pub fn c20_any_word() {
    let w = sym::u32();
    sym::assume(w >> 29 == 0);
    let m = sym::u8();
    sym::assume(m < 8);
    let x = flagged(w, m);
    check!(x == w | ((m as u32) << 29), "marks are bits 29-31 only");
    check!(x.strip_multiples_flags() == w, "strip restores");
    check!(x.get_rank_prime() == w.get_rank_prime() && x.get_rank_flag() == w.get_rank_flag() && x.get_suit_flag() == w.get_suit_flag(), "fields unchanged");
    cover!(m == 5 && w != 0, "pair and quads on a non-zero word");
}
