pub mod c06;
pub mod c07;
