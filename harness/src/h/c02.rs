//! C02 — six/seven-card value is the best five-card hand they contain.
//! C03 — the reported best hand is a sorted five-card witness drawn from the input.
//! C09 — more cards never weaken a hand.
//!
//! The six/seven-card logic is decided for EVERY five-card evaluator with the three facts of S5 (see s5.rs);
//! the real evaluator is one of them by C01.  The `*_royal_mask` harnesses run the REAL evaluator on an
//! almost-concrete family (a royal flush on any five of the slots) so that table/selection defects are
//! reported with a hand that reproduces natively.
use crate::s5;
use crate::spec::cards::*;
use crate::sym;
use ckc_rs::cards::five::Five;
use ckc_rs::cards::seven::Seven;
use ckc_rs::cards::six::Six;
use ckc_rs::cards::HandRanker;

pub fn any_seven() -> [u32; 7] {
    let mut w = [0u32; 7];
    let mut i = 0;
    while i < 7 {
        let (c, _, _) = any_card();
        w[i] = c;
        let mut j = 0;
        while j < i {
            sym::assume(w[j] != c);
            j += 1;
        }
        i += 1;
    }
    w
}

/// the five cards of `w` selected by bit mask `m` (popcount 5), in slot order
fn subset<const N: usize>(w: &[u32; N], m: usize) -> [u32; 5] {
    let mut out = [0u32; 5];
    let mut k = 0;
    let mut i = 0;
    while i < N {
        if (m >> i) & 1 == 1 && k < 5 {
            out[k] = w[i];
            k += 1;
        }
        i += 1;
    }
    out
}

/// spec-side value of the subset with mask m: the abstract table entry (Kani) / the real evaluator (native)
fn f_mask<const N: usize>(w: &[u32; N], m: usize) -> u16 {
    #[cfg(kani)]
    {
        let _ = w;
        s5::entry(m)
    }
    #[cfg(not(kani))]
    {
        s5::f(subset(w, m))
    }
}

fn min_over_subsets<const N: usize>(w: &[u32; N]) -> u16 {
    let mut best = u16::MAX;
    let mut m = 0usize;
    while m < (1 << N) {
        if m.count_ones() == 5 {
            let v = f_mask(w, m);
            if v < best {
                best = v;
            }
        }
        m += 1;
    }
    best
}

fn check_witness<const N: usize>(w: &[u32; N], v: u16, hand: Five) {
    let b = hand.to_arr();
    check!(b[0] > b[1] && b[1] > b[2] && b[2] > b[3] && b[3] > b[4], "reported hand: five distinct cards in descending card order");
    let mut i = 0;
    while i < 5 {
        let mut found = false;
        let mut j = 0;
        while j < N {
            if w[j] == b[i] {
                found = true;
            }
            j += 1;
        }
        check!(found, "every card of the reported hand is taken from the input");
        i += 1;
    }
    check!(s5::f(b) == v, "ranking the reported hand on its own gives the reported value");
}

/// seven distinct cards, any slot order; any order-invariant five-card evaluator (S5)
#[cfg_attr(kani, kani::proof)]
#[cfg_attr(kani, kani::unwind(130))]
#[cfg_attr(kani, kani::stub(<ckc_rs::cards::five::Five as ckc_rs::cards::HandRanker>::hand_rank_value_and_hand, crate::s5::stub_five))]
pub fn c02_seven() {
    let w = any_seven();
    s5::install(&w, true);
    let h = Seven::from(w);
    // the value-only entry point first, on the same hand: a stash left by it must not change what follows
    let v0 = h.hand_rank_value();
    let (v, hand) = h.hand_rank_value_and_hand();
    check!(v0 == v, "hand_rank_value agrees with the value half, called first");
    check!(v == min_over_subsets(&w), "seven-card value is the smallest value over ALL 21 five-card subsets");
    check!(v >= 1 && v <= 7462, "value in range");
    check_witness(&w, v, hand);
    #[cfg(not(kani))]
    concretise::<7>(|a| Seven::from(a).hand_rank_value_and_hand());
    cover!(v == f_mask(&w, 0b1111100) && v < f_mask(&w, 0b0011111), "best hand sits in the last five slots");
    cover!(v == f_mask(&w, 0b1010111), "best hand in slots 0,1,2,4,6");
}

/// six distinct cards, any slot order; S5
#[cfg_attr(kani, kani::proof)]
#[cfg_attr(kani, kani::unwind(66))]
#[cfg_attr(kani, kani::stub(<ckc_rs::cards::five::Five as ckc_rs::cards::HandRanker>::hand_rank_value_and_hand, crate::s5::stub_five))]
pub fn c02_six() {
    let w7 = any_seven();
    let w = [w7[0], w7[1], w7[2], w7[3], w7[4], w7[5]];
    s5::install(&w, true);
    let h = Six::from(w);
    let v0 = h.hand_rank_value();
    let (v, hand) = h.hand_rank_value_and_hand();
    check!(v0 == v, "hand_rank_value agrees with the value half, called first");
    check!(v == min_over_subsets(&w), "six-card value is the smallest value over ALL 6 five-card subsets");
    check!(v >= 1 && v <= 7462, "value in range");
    check_witness(&w, v, hand);
    #[cfg(not(kani))]
    concretise::<6>(|a| Six::from(a).hand_rank_value_and_hand());
    cover!(v == f_mask(&w, 0b111110) && v < f_mask(&w, 0b011111), "best hand sits in the last five slots");
    cover!(v == f_mask(&w, 0b101111), "best hand skips slot 4");
}

/// Native-only concretisation of an abstract counterexample.  The solver found the defect for the abstract
/// evaluator; a VIOLATION is only reported with a hand that fails on the REAL code.  So the native replay, after
/// replaying the model's own cards, also evaluates the clause on the real six/seven-card ranking over two targeted
/// families: (1) a royal flush on every choice of five slots (any candidate row that is missing, duplicated or
/// mis-compared shows there), two fillings, two slot orders; (2) every six/seven-card subset of two 20-card
/// mini-decks (T..A and A,5..2, all suits: quads, full houses, flushes, straights, wheels, kickers) in three slot
/// orders.  The first failing hand is recorded in the replay line (notes=...).
#[cfg(not(kani))]
pub mod concrete {
    use super::*;

    fn describe(w: &[u32]) -> String {
        use ckc_rs::PokerCard;
        w.iter().map(|c| format!("{}{}", c.get_rank_char(), c.get_suit_letter())).collect::<Vec<_>>().join(" ")
    }

    /// calls `f` on every hand of the families until it returns an error text
    pub fn families<const N: usize>(mut f: impl FnMut([u32; N]) -> Option<&'static str>) {
        families_12::<N>(&mut f);
        let failed = crate::sym::native::ST.with(|s| !s.borrow().failed.is_empty());
        if !failed {
            deep_suit::<N>(&mut f);
        }
    }

    fn families_12<const N: usize>(f: &mut impl FnMut([u32; N]) -> Option<&'static str>) {
        let mut report = |w: [u32; N], msg: &'static str| {
            crate::sym::native::note(format!("{} :: {}", msg, describe(&w)));
            crate::sym::native::fail(msg);
        };
        // family 1: royal flush on every slot mask
        let junk = [[word(0, 0), word(1, 1)], [word(5, 2), word(5, 1)]];
        let mut m = 0usize;
        while m < (1 << N) {
            if m.count_ones() == 5 {
                for j in junk {
                    let w: [u32; N] = place_royal::<N>(m, j);
                    let mut rev = w;
                    rev.reverse();
                    for hand in [w, rev] {
                        if let Some(msg) = f(hand) {
                            report(hand, msg);
                            return;
                        }
                    }
                }
            }
            m += 1;
        }
        // family 2: all N-subsets of two mini-decks, three slot orders
        let decks: [[u32; 5]; 2] = [[12, 11, 10, 9, 8], [12, 3, 2, 1, 0]];
        for ranks in decks {
            let mut deck = [0u32; 20];
            for (i, r) in ranks.iter().enumerate() {
                for s in 0..4u32 {
                    deck[i * 4 + s as usize] = word(*r, s);
                }
            }
            for m in 0u32..(1 << 20) {
                if m.count_ones() as usize != N {
                    continue;
                }
                let mut w = [0u32; N];
                let mut k = 0;
                for i in 0..20 {
                    if (m >> i) & 1 == 1 {
                        w[k] = deck[i];
                        k += 1;
                    }
                }
                let mut rev = w;
                rev.reverse();
                let mut mix = [0u32; N];
                for i in 0..N {
                    mix[i] = w[(i * 5 + 1) % N]; // 5 is coprime to 6 and 7: a permutation
                }
                for hand in [w, rev, mix] {
                    if let Some(msg) = f(hand) {
                        report(hand, msg);
                        return;
                    }
                }
            }
        }
    }

    /// family 3: a deep-suit deck (ten spades A K 9..2 plus A 9 5 2 of hearts): six or seven cards of one suit with
    /// straight flushes below the top suited card
    pub fn deep_suit<const N: usize>(mut f: impl FnMut([u32; N]) -> Option<&'static str>) {
        let mut deck = [0u32; 14];
        let spades = [12u32, 11, 7, 6, 5, 4, 3, 2, 1, 0];
        for (i, r) in spades.iter().enumerate() {
            deck[i] = word(*r, 3);
        }
        for (i, r) in [12u32, 7, 3, 0].iter().enumerate() {
            deck[10 + i] = word(*r, 2);
        }
        for m in 0u32..(1 << 14) {
            if m.count_ones() as usize != N {
                continue;
            }
            let mut w = [0u32; N];
            let mut k = 0;
            for i in 0..14 {
                if (m >> i) & 1 == 1 {
                    w[k] = deck[i];
                    k += 1;
                }
            }
            let mut rev = w;
            rev.reverse();
            for hand in [w, rev] {
                if let Some(msg) = f(hand) {
                    crate::sym::native::note(format!("{} :: {}", msg, describe(&hand)));
                    crate::sym::native::fail(msg);
                    return;
                }
            }
        }
    }

    pub fn five_value(a: [u32; 5]) -> u16 {
        Five::from(a).hand_rank_value()
    }

    /// the C02 + C03 clause for one concrete hand on the real code
    pub fn best_of<const N: usize>(w: [u32; N], got: (u16, Five)) -> Option<&'static str> {
        let mut best = u16::MAX;
        for m in 0usize..(1 << N) {
            if m.count_ones() == 5 {
                let v = five_value(subset(&w, m));
                if v < best {
                    best = v;
                }
            }
        }
        let (v, hand) = got;
        if v != best {
            return Some("concretised on the real evaluator: value is not the smallest five-card value over all subsets");
        }
        let b = hand.to_arr();
        if !(b[0] > b[1] && b[1] > b[2] && b[2] > b[3] && b[3] > b[4]) {
            return Some("concretised on the real evaluator: reported hand is not in descending card order");
        }
        if b.iter().any(|c| !w.contains(c)) {
            return Some("concretised on the real evaluator: reported hand has a card that is not in the input");
        }
        if five_value(b) != v {
            return Some("concretised on the real evaluator: reported hand does not rank to the reported value");
        }
        None
    }
}

#[cfg(not(kani))]
pub fn concretise<const N: usize>(rank: impl Fn([u32; N]) -> (u16, Five)) {
    concrete::families::<N>(|w| concrete::best_of(w, rank(w)));
}

const ROYAL: [u32; 5] = [word(12, 3), word(11, 3), word(10, 3), word(9, 3), word(8, 3)];

fn place_royal<const N: usize>(m: usize, others: [u32; 2]) -> [u32; N] {
    let mut w = [0u32; N];
    let mut k = 0;
    let mut o = 0;
    let mut i = 0;
    while i < N {
        if (m >> i) & 1 == 1 {
            if k < 5 {
                w[i] = ROYAL[k];
                k += 1;
            }
        } else if o < 2 {
            w[i] = others[o];
            o += 1;
        }
        i += 1;
    }
    w
}

/// REAL evaluator: a royal flush on any five of the seven slots (symbolic slot mask) ranks 1 and is reported
/// (the two remaining slots hold fixed low cards; with two symbolic cards the formula needs > 50 GB)
#[cfg_attr(kani, kani::proof)]
#[cfg_attr(kani, kani::unwind(23))]
#[cfg_attr(kani, kani::solver(kissat))]
pub fn c02_seven_royal_mask() {
    let m = sym::u8() as usize;
    sym::assume(m < 128 && m.count_ones() == 5);
    let w: [u32; 7] = place_royal::<7>(m, [word(0, 0), word(5, 1)]);
    let (v, hand) = Seven::from(w).hand_rank_value_and_hand();
    check!(v == 1, "a royal flush in any five of seven slots ranks 1");
    check!(sym::same(hand.to_arr(), ROYAL), "and the reported hand is that royal flush, sorted");
    cover!(m == 0b1111100, "royal in the last five slots");
    cover!(m == 0b0101111, "royal in slots 0,1,2,3,5");
}

/// REAL evaluator: the same for six slots
#[cfg_attr(kani, kani::proof)]
#[cfg_attr(kani, kani::unwind(14))]
#[cfg_attr(kani, kani::solver(kissat))]
pub fn c02_six_royal_mask() {
    let m = sym::u8() as usize;
    sym::assume(m < 64 && m.count_ones() == 5);
    let (x, _, _) = any_card();
    let mut i = 0;
    while i < 5 {
        sym::assume(x != ROYAL[i]);
        i += 1;
    }
    let w: [u32; 6] = place_royal::<6>(m, [x, 0]);
    let (v, hand) = Six::from(w).hand_rank_value_and_hand();
    check!(v == 1, "a royal flush in any five of six slots ranks 1");
    check!(sym::same(hand.to_arr(), ROYAL), "and the reported hand is that royal flush, sorted");
    cover!(m == 0b111110, "royal in the last five slots");
    cover!(m == 0b011111, "royal in the first five slots");
}

fn drop_one<const N: usize, const M: usize>(w: &[u32; N], j: usize) -> [u32; M] {
    let mut out = [0u32; M];
    let mut k = 0;
    let mut i = 0;
    while i < N {
        if i != j && k < M {
            out[k] = w[i];
            k += 1;
        }
        i += 1;
    }
    out
}

/// C09, 7 -> 6: seven distinct cards; v7 <= v6 of every six of them, and equals the smallest (S5)
#[cfg_attr(kani, kani::proof)]
#[cfg_attr(kani, kani::unwind(23))]
#[cfg_attr(kani, kani::stub(<ckc_rs::cards::five::Five as ckc_rs::cards::HandRanker>::hand_rank_value_and_hand, crate::s5::stub_five))]
pub fn c09_seven_vs_six() {
    let w = any_seven();
    s5::install(&w, true);
    let v7 = Seven::from(w).hand_rank_value();
    let mut best6 = u16::MAX;
    let mut j = 0;
    while j < 7 {
        let six: [u32; 6] = drop_one::<7, 6>(&w, j);
        let v6 = Six::from(six).hand_rank_value();
        check!(v7 <= v6, "the seven-card value is no weaker than the value of any six of the cards");
        if v6 < best6 {
            best6 = v6;
        }
        j += 1;
    }
    check!(v7 == best6, "and equals the best of its seven six-card values");
    #[cfg(not(kani))]
    concrete::families::<7>(|w| {
        let v7 = Seven::from(w).hand_rank_value();
        let mut best = u16::MAX;
        for j in 0..7 {
            let v6 = Six::from(drop_one::<7, 6>(&w, j)).hand_rank_value();
            if v7 > v6 {
                return Some("concretised on the real evaluator: seven-card value weaker than one of its six-card values");
            }
            best = best.min(v6);
        }
        if v7 != best {
            return Some("concretised on the real evaluator: seven-card value is not the best of its six-card values");
        }
        None
    });
    cover!(v7 < Six::from(drop_one::<7, 6>(&w, 6)).hand_rank_value(), "the seventh card improves the hand");
}

/// C09, 6 -> 5: six distinct cards; v6 <= value of every five of them, and equals the smallest (S5)
#[cfg_attr(kani, kani::proof)]
#[cfg_attr(kani, kani::unwind(14))]
#[cfg_attr(kani, kani::stub(<ckc_rs::cards::five::Five as ckc_rs::cards::HandRanker>::hand_rank_value_and_hand, crate::s5::stub_five))]
pub fn c09_six_vs_five() {
    let w7 = any_seven();
    let w = [w7[0], w7[1], w7[2], w7[3], w7[4], w7[5]];
    s5::install(&w, true);
    let v6 = Six::from(w).hand_rank_value();
    let mut best5 = u16::MAX;
    let mut j = 0;
    while j < 6 {
        let five: [u32; 5] = drop_one::<6, 5>(&w, j);
        let v5 = Five::from(five).hand_rank_value();
        check!(v6 <= v5, "the six-card value is no weaker than the value of any five of the cards");
        if v5 < best5 {
            best5 = v5;
        }
        j += 1;
    }
    check!(v6 == best5, "and equals the best of its six five-card values");
    #[cfg(not(kani))]
    concrete::families::<6>(|w| {
        let v6 = Six::from(w).hand_rank_value();
        let mut best = u16::MAX;
        for j in 0..6 {
            let v5 = Five::from(drop_one::<6, 5>(&w, j)).hand_rank_value();
            if v6 > v5 {
                return Some("concretised on the real evaluator: six-card value weaker than one of its five-card values");
            }
            best = best.min(v5);
        }
        if v6 != best {
            return Some("concretised on the real evaluator: six-card value is not the best of its five-card values");
        }
        None
    });
    cover!(v6 < Five::from(drop_one::<6, 5>(&w, 5)).hand_rank_value(), "the sixth card improves the hand");
}

/// HISTORY — ranking is a function of the hand: after every ranking entry point has been exercised on one hand,
/// ranking ANOTHER hand gives that hand's own value (no memo, cache or other hidden state leaks between calls).
/// Solver side: the primitive is an arbitrary function of the hand (wiring stub with two expectations), so any
/// state kept above it is exposed; native side: the reference is the best five-card value over all subsets, and a
/// family of all ordered pairs of six/seven-card hands from a small two-suit pool is run as well.
fn xor_all<const N: usize>(w: &[u32; N]) -> u32 {
    let mut x = 0;
    let mut i = 0;
    while i < N {
        x ^= w[i];
        i += 1;
    }
    x
}

macro_rules! history {
    ($name:ident, $ty:ty, $n:expr, $stub:path, $unw:expr, $pool:expr) => {
        #[cfg_attr(kani, kani::proof)]
        #[cfg_attr(kani, kani::unwind($unw))]
        #[cfg_attr(kani, kani::stub(<$ty as ckc_rs::cards::HandRanker>::hand_rank_value_and_hand, $stub))]
        pub fn $name() {
            // four hands; hands 0..2 are ranked first (every entry point), hand 3 is checked.  Any of them may be
            // equal (X, Y, X, X and X, Y, X, Y patterns included), each is seven distinct cards cut to the hand size.
            let mut w = [[0u32; $n]; 4];
            let mut fv = [0u16; 4];
            let mut k = 0;
            while k < 4 {
                let c = any_seven();
                let mut i = 0;
                while i < $n {
                    w[k][i] = c[i];
                    i += 1;
                }
                fv[k] = sym::u16();
                sym::assume(fv[k] >= 1 && fv[k] <= 7462);
                k += 1;
            }
            // the abstract primitive is a function: equal hands have equal values
            let mut k = 0;
            while k < 4 {
                let mut j = 0;
                while j < k {
                    sym::assume(!sym::same(w[j], w[k]) || fv[j] == fv[k]);
                    j += 1;
                }
                k += 1;
            }
            crate::wiring::begin(4);
            let mut k = 0;
            while k < 4 {
                crate::wiring::expect_k(k, &w[k], fv[k], [w[k][0], w[k][1], w[k][2], w[k][3], w[k][4]]);
                k += 1;
            }
            let mut k = 0;
            while k < 3 {
                let h = <$ty>::from(w[k]);
                let _ = h.hand_rank_value();
                let _ = h.hand_rank_value_and_hand();
                let _ = h.hand_rank_value_validated();
                let _ = h.hand_rank();
                k += 1;
            }
            let h3 = <$ty>::from(w[3]);
            #[cfg(kani)]
            let want = fv[3];
            #[cfg(not(kani))]
            let want = history_reference(&w[3]);
            check!(h3.hand_rank_value() == want, "hand_rank_value after ranking other hands is the hand's own value");
            check!(h3.hand_rank_value_and_hand().0 == want, "hand_rank_value_and_hand after ranking other hands");
            check!(h3.hand_rank_value_validated() == want, "hand_rank_value_validated after ranking other hands");
            check!(h3.hand_rank().value == want, "hand_rank after ranking other hands");
            #[cfg(not(kani))]
            history_family::<$n>($pool, |a| {
                let h = <$ty>::from(a);
                [h.hand_rank_value(), h.hand_rank_value_and_hand().0, h.hand_rank_value_validated(), h.hand_rank().value]
            });
            cover!(sym::same(w[0], w[2]) && sym::same(w[0], w[3]) && !sym::same(w[0], w[1]) && fv[0] != fv[1], "the pattern X, Y, X, X");
            cover!(!sym::same(w[2], w[3]) && fv[2] != fv[3], "the last two hands differ");
            cover!(xor_all(&w[2]) == xor_all(&w[3]) && !sym::same(w[2], w[3]), "different hands with the same XOR signature");
        }
    };
}
history!(c02_six_history, ckc_rs::cards::six::Six, 6, crate::wiring::stub_six, 9, 10);
history!(c02_seven_history, ckc_rs::cards::seven::Seven, 7, crate::wiring::stub_seven, 9, 11);
history!(c01_five_history, ckc_rs::cards::five::Five, 5, crate::wiring::stub_five, 9, 10);

#[cfg(not(kani))]
fn history_reference<const N: usize>(w: &[u32; N]) -> u16 {
    let mut best = u16::MAX;
    for m in 0usize..(1 << N) {
        if m.count_ones() == 5 {
            best = best.min(concrete::five_value(subset(w, m)));
        }
    }
    best
}

/// all ordered pairs (x, y) of N-card hands from a pool of `pool` cards (spades A..; hearts A K Q J): rank x through
/// every entry point, then y, and compare y's results with the subset reference
#[cfg(not(kani))]
fn history_family<const N: usize>(pool: usize, rank: impl Fn([u32; N]) -> [u16; 4]) {
    let mut deck = Vec::new();
    for r in 0..(pool - 4) {
        deck.push(word(12 - r as u32, 3));
    }
    for r in 0..4 {
        deck.push(word(12 - r as u32, 2));
    }
    let mut hands: Vec<[u32; N]> = Vec::new();
    for m in 0u32..(1 << pool) {
        if m.count_ones() as usize == N {
            let mut w = [0u32; N];
            let mut k = 0;
            for i in 0..pool {
                if (m >> i) & 1 == 1 {
                    w[k] = deck[i];
                    k += 1;
                }
            }
            hands.push(w);
        }
    }
    let refs: Vec<u16> = hands.iter().map(|h| history_reference(h)).collect();
    for (i, x) in hands.iter().enumerate() {
        for (j, y) in hands.iter().enumerate() {
            let _ = rank(*x);
            let got = rank(*y);
            // and back: the pattern x, y, x (a two-entry cache shows on the third call)
            if rank(*x).iter().any(|v| *v != refs[i]) {
                crate::sym::native::fail("history family on the real code: x, y, x - the third call does not give x's own value");
                return;
            }
            if got.iter().any(|v| *v != refs[j]) {
                use ckc_rs::PokerCard;
                let d = |w: &[u32; N]| w.iter().map(|c| format!("{}{}", c.get_rank_char(), c.get_suit_letter())).collect::<Vec<_>>().join(" ");
                crate::sym::native::note(format!("after ranking [{}], ranking [{}] gives {:?}, its own value is {}", d(x), d(y), got, refs[j]));
                crate::sym::native::fail("history family on the real code: a hand's value depends on what was ranked before it");
                return;
            }
        }
    }
}

/// eight distinct real cards
pub fn any_eight() -> [u32; 8] {
    let mut w = [0u32; 8];
    let mut i = 0;
    while i < 8 {
        let (c, _, _) = any_card();
        w[i] = c;
        let mut j = 0;
        while j < i {
            sym::assume(w[j] != c);
            j += 1;
        }
        i += 1;
    }
    w
}

fn min_over_hand<const N: usize>(w: &[u32; N]) -> u16 {
    let mut best = u16::MAX;
    let mut m = 0usize;
    while m < (1 << N) {
        if m.count_ones() == 5 {
            let v = s5::f(subset(w, m));
            if v < best {
                best = v;
            }
        }
        m += 1;
    }
    best
}

/// REPEATED RANKING with the six/seven-card code REAL (only the five-card evaluator is abstract, S5 over a base of
/// N+1 cards): two overlapping hands X = cards 0..N-1 and Y = cards 1..N are ranked in the order X, Y, X, X, Y and
/// the value AND the reported hand of the last two calls are checked — a cache inside the six/seven-card ranking
/// (recently-ranked memo, move-to-front slip) shows here
macro_rules! repeat_ranking {
    ($name:ident, $ty:ty, $n:expr, $unw:expr) => {
        #[cfg_attr(kani, kani::proof)]
        #[cfg_attr(kani, kani::unwind($unw))]
        #[cfg_attr(kani, kani::stub(<ckc_rs::cards::five::Five as ckc_rs::cards::HandRanker>::hand_rank_value_and_hand, crate::s5::stub_five))]
        pub fn $name() {
            let c = any_eight();
            let mut base = [0u32; $n + 1];
            let mut x = [0u32; $n];
            let mut y = [0u32; $n];
            let mut i = 0;
            while i < $n + 1 {
                base[i] = c[i];
                i += 1;
            }
            let mut i = 0;
            while i < $n {
                x[i] = c[i];
                y[i] = c[i + 1];
                i += 1;
            }
            s5::install(&base, true);
            let (hx, hy) = (<$ty>::from(x), <$ty>::from(y));
            let _ = hx.hand_rank_value_and_hand();
            let _ = hy.hand_rank_value_and_hand();
            let _ = hx.hand_rank_value_and_hand();
            let (vx, handx) = hx.hand_rank_value_and_hand();
            check!(vx == min_over_hand(&x), "fourth call (X, Y, X, X): value is X's own best value");
            check_witness(&x, vx, handx);
            let (vy, handy) = hy.hand_rank_value_and_hand();
            check!(vy == min_over_hand(&y), "fifth call (.., Y): value is Y's own best value");
            check_witness(&y, vy, handy);
            cover!(vx != vy, "the two hands rank differently");
            cover!(vx == vy, "the two hands share their best five");
        }
    };
}
repeat_ranking!(c03_six_repeat, Six, 6, 66);
repeat_ranking!(c03_seven_repeat, Seven, 7, 130);
