//! C19 — hand containers store and return exactly the words put into them.
//! One inductive step: from an ARBITRARY container, one setter with an arbitrary word changes exactly
//! its slot; constructors and readers agree with a plain array.  That covers every setter history.
use crate::sym::{self, same};
use ckc_rs::cards::five::Five;
use ckc_rs::cards::four::Four;
use ckc_rs::cards::seven::Seven;
use ckc_rs::cards::six::Six;
use ckc_rs::cards::three::Three;
use ckc_rs::cards::two::Two;
use ckc_rs::cards::{HandValidator, Permutator};

#[cfg_attr(kani, kani::proof)]
#[cfg_attr(kani, kani::unwind(9))]
pub fn c19_two_three_four() {
    let a: [u32; 4] = sym::words::<4>();
    let w = sym::u32();
    let k = sym::u8() as usize;
    sym::assume(k < 4);
    // Two
    let mut t = Two::from([a[0], a[1]]);
    check!(same(t.to_arr(), [a[0], a[1]]) && t.first() == a[0] && t.second() == a[1], "Two: from array, readers");
    check!(same(Two::new(a[0], a[1]).to_arr(), t.to_arr()) && same(Two::from(&[a[0], a[1]]).to_arr(), t.to_arr()), "Two: new and From<&[u32;2]> agree");
    let mut it = t.iter();
    check!(it.next() == Some(&a[0]) && it.next() == Some(&a[1]) && it.next().is_none(), "Two: iteration in slot order");
    if k < 2 {
        let mut m = [a[0], a[1]];
        m[k] = w;
        match k {
            0 => t.set_first(w),
            _ => t.set_second(w),
        }
        check!(same(t.to_arr(), m), "Two: a setter changes exactly its slot");
    }
    // Three
    let mut t3 = Three::from([a[0], a[1], a[2]]);
    check!(same(t3.to_arr(), [a[0], a[1], a[2]]) && t3.first() == a[0] && t3.second() == a[1] && t3.third() == a[2], "Three: from array, readers");
    let mut it = t3.iter();
    check!(it.next() == Some(&a[0]) && it.next() == Some(&a[1]) && it.next() == Some(&a[2]) && it.next().is_none(), "Three: iteration");
    if k < 3 {
        let mut m = [a[0], a[1], a[2]];
        m[k] = w;
        match k {
            0 => t3.set_first(w),
            1 => t3.set_second(w),
            _ => t3.set_third(w),
        }
        check!(same(t3.to_arr(), m), "Three: a setter changes exactly its slot");
    }
    // Four
    let mut t4 = Four::from(a);
    check!(same(t4.to_arr(), a) && t4.first() == a[0] && t4.second() == a[1] && t4.third() == a[2] && t4.forth() == a[3], "Four: from array, readers");
    let mut it = t4.iter();
    check!(it.next() == Some(&a[0]) && it.next() == Some(&a[1]) && it.next() == Some(&a[2]) && it.next() == Some(&a[3]) && it.next().is_none(), "Four: iteration");
    let mut m = a;
    m[k] = w;
    match k {
        0 => t4.set_first(w),
        1 => t4.set_second(w),
        2 => t4.set_third(w),
        _ => t4.set_forth(w),
    }
    check!(same(t4.to_arr(), m), "Four: a setter changes exactly its slot");
    cover!(k == 3 && w != a[3], "last slot of Four rewritten");
    cover!(k == 1 && w != a[1], "second slot rewritten");
}

#[cfg_attr(kani, kani::proof)]
#[cfg_attr(kani, kani::unwind(9))]
pub fn c19_five() {
    let a: [u32; 5] = sym::words::<5>();
    let w = sym::u32();
    let k = sym::u8() as usize;
    sym::assume(k < 5);
    let mut t = Five::from(a);
    check!(same(t.to_arr(), a), "Five: from array");
    check!(t.first() == a[0] && t.second() == a[1] && t.third() == a[2] && t.forth() == a[3] && t.fifth() == a[4], "Five: readers");
    check!(same(Five::new(a[0], a[1], a[2], a[3], a[4]).to_arr(), a), "Five: new");
    let mut it = t.iter();
    let mut i = 0;
    while i < 5 {
        check!(it.next() == Some(&a[i]), "Five: iteration in slot order");
        i += 1;
    }
    check!(it.next().is_none(), "Five: iteration ends");
    let mut m = a;
    m[k] = w;
    match k {
        0 => t.set_first(w),
        1 => t.set_second(w),
        2 => t.set_third(w),
        3 => t.set_forth(w),
        _ => t.set_fifth(w),
    }
    check!(same(t.to_arr(), m), "Five: a setter changes exactly its slot");
    cover!(k == 4 && w != a[4], "fifth slot rewritten");
    cover!(k == 2 && w != a[2], "third slot rewritten");
}

#[cfg_attr(kani, kani::proof)]
#[cfg_attr(kani, kani::unwind(9))]
pub fn c19_six() {
    let a: [u32; 6] = sym::words::<6>();
    let w = sym::u32();
    let k = sym::u8() as usize;
    sym::assume(k < 6);
    let mut sib = Seven::from([a[0], a[1], a[2], a[3], a[4], a[5], w]);
    sib.set_seventh(w);
    sib.set_sixth(w);
    let mut t = Six::from(a);
    check!(same(t.to_arr(), a), "Six: from array");
    check!(t.first() == a[0] && t.second() == a[1] && t.third() == a[2] && t.forth() == a[3] && t.fifth() == a[4] && t.sixth() == a[5], "Six: readers");
    check!(same(Six::from_1_and_2_and_3(a[0], Two::new(a[1], a[2]), Three::from([a[3], a[4], a[5]])).to_arr(), a), "Six: from parts keeps slot order");
    let mut it = t.iter();
    let mut i = 0;
    while i < 6 {
        check!(it.next() == Some(&a[i]), "Six: iteration in slot order");
        i += 1;
    }
    check!(it.next().is_none(), "Six: iteration ends");
    let mut m = a;
    m[k] = w;
    match k {
        0 => t.set_first(w),
        1 => t.set_second(w),
        2 => t.set_third(w),
        3 => t.set_forth(w),
        4 => t.set_fifth(w),
        _ => t.set_sixth(w),
    }
    check!(same(t.to_arr(), m), "Six: a setter changes exactly its slot");
    // slot-index selection, every in-range index tuple (6^5)
    let p = [sym::u8(), sym::u8(), sym::u8(), sym::u8(), sym::u8()];
    sym::assume(p[0] < 6 && p[1] < 6 && p[2] < 6 && p[3] < 6 && p[4] < 6);
    let f = Six::from(a).five_from_permutation(p).to_arr();
    check!(same(f, [a[p[0] as usize], a[p[1] as usize], a[p[2] as usize], a[p[3] as usize], a[p[4] as usize]]), "Six: five_from_permutation picks the named slots in order");
    cover!(k == 5 && w != a[5], "sixth slot rewritten");
    cover!(p[0] == 5 && p[4] == 0, "a decreasing index tuple");
}

#[cfg_attr(kani, kani::proof)]
#[cfg_attr(kani, kani::unwind(9))]
pub fn c19_seven() {
    let a: [u32; 7] = sym::words::<7>();
    let w = sym::u32();
    let k = sym::u8() as usize;
    sym::assume(k < 7);
    // priming: a tail write on the sibling container type first (shared lazily filled state would show)
    let mut sib = Six::from([a[0], a[1], a[2], a[3], a[4], a[5]]);
    sib.set_sixth(w);
    sib.set_first(w);
    let mut t = Seven::from(a);
    check!(same(t.to_arr(), a), "Seven: from array");
    check!(t.first() == a[0] && t.second() == a[1] && t.third() == a[2] && t.forth() == a[3] && t.fifth() == a[4] && t.sixth() == a[5] && t.seventh() == a[6], "Seven: readers");
    check!(same(Seven::new(Two::new(a[0], a[1]), Five::from([a[2], a[3], a[4], a[5], a[6]])).to_arr(), a), "Seven: new(two, five) keeps slot order");
    let mut it = t.iter();
    let mut i = 0;
    while i < 7 {
        check!(it.next() == Some(&a[i]), "Seven: iteration in slot order");
        i += 1;
    }
    check!(it.next().is_none(), "Seven: iteration ends");
    let mut m = a;
    m[k] = w;
    match k {
        0 => t.set_first(w),
        1 => t.set_second(w),
        2 => t.set_third(w),
        3 => t.set_forth(w),
        4 => t.set_fifth(w),
        5 => t.set_sixth(w),
        _ => t.set_seventh(w),
    }
    check!(same(t.to_arr(), m), "Seven: a setter changes exactly its slot");
    let p = [sym::u8(), sym::u8(), sym::u8(), sym::u8(), sym::u8()];
    sym::assume(p[0] < 7 && p[1] < 7 && p[2] < 7 && p[3] < 7 && p[4] < 7);
    let f = Seven::from(a).five_from_permutation(p).to_arr();
    check!(same(f, [a[p[0] as usize], a[p[1] as usize], a[p[2] as usize], a[p[3] as usize], a[p[4] as usize]]), "Seven: five_from_permutation picks the named slots in order");
    cover!(k == 6 && w != a[6], "seventh slot rewritten");
    cover!(p[0] == 6 && p[1] == 6, "a repeated index");
}
