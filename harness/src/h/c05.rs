//! C05 — ranking never panics on card-or-blank hands; a blank five is Invalid.
//! Panic freedom = every rustc-inserted bounds / overflow / unwrap assertion reachable from the entry
//! points is a CBMC property; Kani checks the dev profile with overflow checks ON, so a pass means no
//! arithmetic wraps either and the release profile takes the same path.
use crate::spec::cards::*;
use crate::sym;
use ckc_rs::cards::five::Five;
use ckc_rs::cards::seven::Seven;
use ckc_rs::cards::six::Six;
use ckc_rs::cards::HandRanker;
use ckc_rs::hand_rank::{HandRankClass, HandRankName};

/// H1 — the public product-search helper, every usize key
#[cfg_attr(kani, kani::proof)]
#[cfg_attr(kani, kani::unwind(14))]
#[cfg_attr(kani, kani::solver(kissat))]
pub fn c05_find_in_products() {
    let key = sym::usize();
    let i = Five::find_in_products(key);
    check!(i < 4888, "find_in_products returns an index inside the table for every key");
    cover!(key < 48, "a key below the smallest product");
    cover!(key > 0xFFFF_FFFF, "a key above every 32-bit product");
    cover!(i == 4887, "the last entry found");
}

/// H1' — history: searches after arbitrary earlier searches still return an in-range index without panicking, and the
/// two keys whose rows are known from first principles (the smallest product 2*2*2*2*3 = 48 in row 0, the largest
/// 41^4*37 = 104553157 in the last row) are still found — whatever was searched before (hints, memos, truncated keys)
#[cfg_attr(kani, kani::proof)]
#[cfg_attr(kani, kani::unwind(14))]
#[cfg_attr(kani, kani::solver(kissat))]
pub fn c05_find_history() {
    let k0 = sym::usize();
    let k1 = sym::usize();
    let _ = Five::find_in_products(k0);
    let i = Five::find_in_products(k1);
    check!(i < 4888, "second search returns an index inside the table");
    check!(Five::find_in_products(104_553_157) == 4887, "the largest product is still found in the last row");
    check!(Five::find_in_products(48) == 0, "the smallest product is still found in row 0");
    cover!(k0 == 48 && k1 < 48, "first search hits the first row, second key is below every product");
    cover!(k0 > 0xFFFF_FFFF && (k0 & 0xFFFF_FFFF) == 104_553_157, "first key is the largest product plus a multiple of 2^32");
}

fn five_slots() -> [u32; 5] {
    [any_card_or_blank(), any_card_or_blank(), any_card_or_blank(), any_card_or_blank(), any_card_or_blank()]
}

/// H2 — every five-slot array over {52 cards, blank} with at least one blank, any order, any repetition:
/// the five-card primitive on the REAL evaluator returns normally with value 0 (=> rank Invalid; the other
/// entry points are wired to it, see the c04_wiring_* harnesses)
#[cfg_attr(kani, kani::proof)]
#[cfg_attr(kani, kani::unwind(14))]
#[cfg_attr(kani, kani::solver(kissat))]
pub fn c05_blank_five() {
    let a = five_slots();
    sym::assume(a[0] == 0 || a[1] == 0 || a[2] == 0 || a[3] == 0 || a[4] == 0);
    let h = Five::from(a);
    let (v, _) = h.hand_rank_value_and_hand();
    check!(v == 0, "a five-slot hand containing a blank has value 0");
    let r = ckc_rs::hand_rank::HandRank::from(v);
    check!(r.name == HandRankName::Invalid && r.class == HandRankClass::Invalid, "and its rank is Invalid");
    cover!(a[0] != 0 && a[1] != 0 && a[2] != 0 && a[3] != 0 && a[4] == 0 && (a[0] & a[1] & a[2] & a[3] & 0xF000) != 0, "four suited cards and a blank");
    cover!(a[0] == 0 && a[1] == 0 && a[2] == 0 && a[3] == 0 && a[4] == 0, "the default hand");
    cover!(a[2] == 0 && a[0] == a[1] && a[0] != 0, "a blank and a repeated card");
}

/// H2' — the same through every public entry point, on the structured sub-domain the parsers produce most
/// readily: exactly one blank slot (any position), four distinct real cards
#[cfg_attr(kani, kani::proof)]
#[cfg_attr(kani, kani::unwind(14))]
#[cfg_attr(kani, kani::solver(kissat))]
pub fn c05_blank_five_entry_points() {
    let (w0, _, _) = any_card();
    let (w1, _, _) = any_card();
    let (w2, _, _) = any_card();
    let (w3, _, _) = any_card();
    sym::assume(w0 > w1 && w1 > w2 && w2 > w3);
    let k = sym::u8() as usize;
    sym::assume(k < 5);
    let mut a = [w0, w1, w2, w3, 0];
    a[4] = a[k];
    a[k] = 0;
    let h = Five::from(a);
    check!(h.hand_rank_value() == 0, "hand_rank_value 0");
    let r = h.hand_rank();
    check!(r.value == 0 && r.name == HandRankName::Invalid && r.class == HandRankClass::Invalid, "hand_rank Invalid");
    check!(h.hand_rank_value_validated() == 0, "validated value 0");
    check!(h.hand_rank_validated().name == HandRankName::Invalid, "validated rank Invalid");
    check!(ckc_rs::evaluate::five_cards(a) == 0, "evaluate::five_cards 0");
    cover!(k == 0, "blank first");
    cover!(k == 4, "blank last");
}

/// H3a — every five-slot array over {52 cards, blank}, any repetition: the primitive never panics (real evaluator)
#[cfg_attr(kani, kani::proof)]
#[cfg_attr(kani, kani::unwind(14))]
#[cfg_attr(kani, kani::solver(kissat))]
pub fn c05_five_total() {
    let a = five_slots();
    let h = Five::from(a);
    let (v, hand) = h.hand_rank_value_and_hand();
    check!(v <= 7462, "value is 0 or a real ordinal");
    check!(crate::sym::same(hand.to_arr(), a), "reported hand is the input");
    cover!(a[0] == a[1] && a[1] == a[2] && a[2] == a[3] && a[3] == a[4] && a[0] != 0, "five copies of one card");
    cover!(v != 0 && a[0] == a[1], "a value on a hand with a repeated card");
}

/// contract of the product search used by H3b/H3c (decided on the real function by H1)
#[cfg(kani)]
pub fn stub_find(_key: usize) -> usize {
    let i: usize = kani::any();
    kani::assume(i < 4888);
    i
}

fn six_or_seven_slots() -> [u32; 7] {
    [any_card_or_blank(), any_card_or_blank(), any_card_or_blank(), any_card_or_blank(), any_card_or_blank(), any_card_or_blank(), any_card_or_blank()]
}

/// H3b — six slots over {52 cards, blank}, any repetition/order: the primitive and the validated entry never panic
#[cfg_attr(kani, kani::proof)]
#[cfg_attr(kani, kani::unwind(14))]
#[cfg_attr(kani, kani::solver(kissat))]
#[cfg_attr(kani, kani::stub(ckc_rs::cards::five::Five::find_in_products, stub_find))]
pub fn c05_six_total() {
    let a = six_or_seven_slots();
    let h = Six::from([a[0], a[1], a[2], a[3], a[4], a[5]]);
    let (v, _) = h.hand_rank_value_and_hand();
    check!(v <= 7462, "six: returns normally with 0 or an ordinal");
    cover!(a[0] == 0 && a[5] == 0, "six: blanks at both ends");
    cover!(a[0] != 0 && a[0] == a[1], "six: a repeated card");
}

/// H3c — seven slots over {52 cards, blank}, any repetition/order
#[cfg_attr(kani, kani::proof)]
#[cfg_attr(kani, kani::unwind(23))]
#[cfg_attr(kani, kani::solver(kissat))]
#[cfg_attr(kani, kani::stub(ckc_rs::cards::five::Five::find_in_products, stub_find))]
pub fn c05_seven_total() {
    let a = six_or_seven_slots();
    let h = Seven::from(a);
    let (v, _) = h.hand_rank_value_and_hand();
    check!(v <= 7462, "seven: returns normally with 0 or an ordinal");
    cover!(a[0] == 0 && a[6] == 0, "seven: blanks at both ends");
    cover!(a[0] != 0 && a[0] == a[6], "seven: a repeated card");
}

/// arbitrary total primitive for the compositional harnesses: never panics, any result
#[cfg(kani)]
pub fn stub_five_any(h: &Five) -> (u16, Five) {
    let v: u16 = kani::any();
    (v, *h)
}

/// native family for the compositional harnesses: the real six/seven-card ranking on structured card-or-blank
/// hands (one or two blanks in every position among strong cards, repeated cards); any panic is a violation
#[cfg(not(kani))]
fn blank_family<const N: usize>(rank: impl Fn([u32; N])) {
    let strong = [word(12, 3), word(11, 3), word(10, 3), word(9, 3), word(8, 3), word(7, 3), word(0, 0)];
    for b1 in 0..N {
        for b2 in 0..N {
            let mut w = [0u32; N];
            for i in 0..N {
                w[i] = strong[i];
            }
            w[b1] = 0;
            w[b2] = 0;
            rank(w);
            let mut d = [0u32; N];
            for i in 0..N {
                d[i] = strong[i];
            }
            d[b1] = d[b2]; // a repeated card
            rank(d);
        }
    }
}

/// H3b' — compositional: Six's own selection / comparison / sort logic never panics on card-or-blank slots, whatever
/// (total) five-card primitive it calls — in particular one that returns 0 for some candidates and a rank for others;
/// with c05_five_total (the real primitive never panics on any card-or-blank five) this gives panic freedom of
/// six-slot ranking on card-or-blank hands
#[cfg_attr(kani, kani::proof)]
#[cfg_attr(kani, kani::unwind(9))]
#[cfg_attr(kani, kani::stub(<ckc_rs::cards::five::Five as ckc_rs::cards::HandRanker>::hand_rank_value_and_hand, stub_five_any))]
pub fn c05_six_logic_total() {
    let s = six_or_seven_slots();
    let a: [u32; 6] = [s[0], s[1], s[2], s[3], s[4], s[5]];
    let h = Six::from(a);
    let (_v, hand) = h.hand_rank_value_and_hand();
    let b = hand.to_arr();
    check!(b[0] >= b[1] && b[1] >= b[2] && b[2] >= b[3] && b[3] >= b[4], "six: returns normally, reported hand in non-increasing order");
    #[cfg(not(kani))]
    blank_family::<6>(|w| {
        let _ = Six::from(w).hand_rank_value_and_hand();
        let _ = Six::from(w).hand_rank_value_validated();
    });
    cover!(a[0] == 0 && a[5] != 0, "six: a blank first");
    cover!(a[0] != 0 && a[0] == a[5], "six: a repeated card");
}

/// H3c' — the same for Seven
#[cfg_attr(kani, kani::proof)]
#[cfg_attr(kani, kani::unwind(23))]
#[cfg_attr(kani, kani::stub(<ckc_rs::cards::five::Five as ckc_rs::cards::HandRanker>::hand_rank_value_and_hand, stub_five_any))]
pub fn c05_seven_logic_total() {
    let a: [u32; 7] = six_or_seven_slots();
    let h = Seven::from(a);
    let (_v, hand) = h.hand_rank_value_and_hand();
    let b = hand.to_arr();
    check!(b[0] >= b[1] && b[1] >= b[2] && b[2] >= b[3] && b[3] >= b[4], "seven: returns normally, reported hand in non-increasing order");
    #[cfg(not(kani))]
    blank_family::<7>(|w| {
        let _ = Seven::from(w).hand_rank_value_and_hand();
        let _ = Seven::from(w).hand_rank_value_validated();
    });
    cover!(a[0] == 0 && a[6] != 0, "seven: a blank first");
    cover!(a[0] != 0 && a[0] == a[6], "seven: a repeated card");
}
