//! C07 — HandRank order is a lawful total order in which stronger hands are greater.
use crate::sym;
use ckc_rs::hand_rank::HandRank;
use core::cmp::Ordering;

fn valid(v: u16) -> bool {
    v >= 1 && v <= 7462
}

/// all ordered pairs of u16 values
#[cfg_attr(kani, kani::proof)]
pub fn c07_pair_laws() {
    let a = sym::u16();
    let b = sym::u16();
    let ra = HandRank::from(a);
    let rb = HandRank::from(b);
    let ab = ra.cmp(&rb);
    let ba = rb.cmp(&ra);
    check!(ra.cmp(&ra) == Ordering::Equal, "reflexive: cmp(a,a) == Equal");
    check!(ab == ba.reverse(), "antisymmetric: cmp(a,b) == cmp(b,a).reverse()");
    check!((ab == Ordering::Equal) == (ra == rb), "consistent with equality: cmp == Equal iff a == b");
    check!(ra.partial_cmp(&rb) == Some(ab), "partial_cmp == Some(cmp)");
    check!((ra < rb) == (ab == Ordering::Less), "< agrees with cmp");
    check!((ra <= rb) == (ab != Ordering::Greater), "<= agrees with cmp");
    check!((ra > rb) == (ab == Ordering::Greater), "> agrees with cmp");
    check!((ra >= rb) == (ab != Ordering::Less), ">= agrees with cmp");
    if valid(a) && valid(b) && a < b {
        check!(ab == Ordering::Greater, "valid lower value (stronger) compares greater");
    }
    if !valid(a) && valid(b) {
        check!(ab == Ordering::Less, "invalid compares below valid");
    }
    cover!(!valid(a) && !valid(b) && a != b, "two different invalid values");
    cover!(valid(a) && valid(b) && a < b, "two valid values");
    cover!(!valid(a) && valid(b), "invalid vs valid");
}

/// all triples of u16 values
#[cfg_attr(kani, kani::proof)]
pub fn c07_transitive() {
    let a = sym::u16();
    let b = sym::u16();
    let c = sym::u16();
    let (ra, rb, rc) = (HandRank::from(a), HandRank::from(b), HandRank::from(c));
    if ra.cmp(&rb) != Ordering::Greater && rb.cmp(&rc) != Ordering::Greater {
        check!(ra.cmp(&rc) != Ordering::Greater, "transitive: a<=b and b<=c implies a<=c");
        if ra.cmp(&rb) == Ordering::Less || rb.cmp(&rc) == Ordering::Less {
            check!(ra.cmp(&rc) == Ordering::Less, "transitive, strict part");
        }
    }
    cover!(ra.cmp(&rb) == Ordering::Less && rb.cmp(&rc) == Ordering::Less && !valid(a) && valid(c), "chain invalid < .. < valid");
}

/// category and class enumerations are ordered strongest-first, in step with the value
#[cfg_attr(kani, kani::proof)]
pub fn c07_enum_order() {
    let v = sym::u16();
    let w = sym::u16();
    sym::assume(valid(v) && valid(w) && v <= w);
    let (nv, nw) = (HandRank::determine_name(&v), HandRank::determine_name(&w));
    let (cv, cw) = (HandRank::determine_class(&v), HandRank::determine_class(&w));
    check!(nv <= nw, "category enumeration ordered in step with value");
    check!(cv <= cw, "class enumeration ordered in step with value");
    check!(nv.cmp(&nw) != Ordering::Greater && cv.cmp(&cw) != Ordering::Greater, "derived cmp agrees");
    let inv = ckc_rs::hand_rank::HandRankName::Invalid;
    let invc = ckc_rs::hand_rank::HandRankClass::Invalid;
    check!(nv < inv && cv < invc, "Invalid is last in both enumerations");
    cover!(cv < cw && nv == nw, "two classes of one category");
    cover!(nv < nw, "two categories");
}
