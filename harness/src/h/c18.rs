//! C18 — deck and published combination tables are complete and duplicate-free.
use crate::spec::cards::*;
use crate::sym;
use ckc_rs::cards::four::Four;
use ckc_rs::cards::seven::Seven;
use ckc_rs::cards::six::Six;
use ckc_rs::cards::two::Two;
use ckc_rs::cards::HandValidator;
use ckc_rs::deck::{Deck, DECK_SIZE, POKER_DECK};

/// every deck index in range, and EVERY usize index at or past the end
#[cfg_attr(kani, kani::proof)]
#[cfg_attr(kani, kani::unwind(53))]
pub fn c18_deck() {
    let i0 = sym::usize();
    // priming call on an unrelated arbitrary input: a memo / cache in front of a pure function would show here
    let _ = Deck::get(i0);
    let i = sym::usize();
    if i < 52 {
        let w = word(12 - (i as u32) % 13, 3 - (i as u32) / 13);
        check!(Deck::get(i) == w, "Deck::get(i): spades A..2, hearts, diamonds, clubs");
        check!(POKER_DECK.arr()[i] == w, "POKER_DECK.arr()[i]");
        // exactly once: no other index holds the same card
        let j = sym::usize();
        sym::assume(j < 52 && j != i);
        check!(POKER_DECK.arr()[j] != w, "each card occurs once in the deck");
    } else {
        check!(Deck::get(i) == 0, "indexing at or past the end gives blank");
    }
    check!(Deck::len() == 52 && DECK_SIZE == 52, "52 cards");
    cover!(i == 52, "index len");
    cover!(i == usize::MAX, "index usize::MAX");
    cover!(i == 51, "last card");
}

/// occurrences of a (first, second) hand in a preset table
fn count_in<const N: usize>(t: &[Two; N], a: u32, b: u32) -> usize {
    let mut n = 0;
    let mut i = 0;
    while i < N {
        if t[i].first() == a && t[i].second() == b {
            n += 1;
        }
        i += 1;
    }
    n
}

/// preset starting-hand tables, both directions
#[cfg_attr(kani, kani::proof)]
#[cfg_attr(kani, kani::unwind(18))]
pub fn c18_presets() {
    // direction 1: every described combination occurs exactly once (higher card first)
    let s1 = sym::u8() as u32;
    let s2 = sym::u8() as u32;
    sym::assume(s1 <= 3 && s2 <= 3);
    let (a1, a2) = (word(12, s1), word(12, s2));
    let (k2, q2) = (word(11, s2), word(10, s2));
    if s1 > s2 {
        check!(count_in(&Two::AA, a1, a2) == 1, "every ace pair is in AA once, higher suit first");
        check!(count_in(&Two::AA, a2, a1) == 0, "never lower card first");
    }
    check!(count_in(&Two::AK, a1, k2) == 1, "every ace-king is in AK once");
    check!(count_in(&Two::AK, k2, a1) == 0, "never king first");
    check!(count_in(&Two::AKs, a1, k2) == (if s1 == s2 { 1 } else { 0 }), "AKs holds exactly the suited ace-kings");
    check!(count_in(&Two::AKo, a1, k2) == (if s1 != s2 { 1 } else { 0 }), "AKo holds exactly the offsuit ace-kings");
    check!(count_in(&Two::AQs, a1, q2) == (if s1 == s2 { 1 } else { 0 }), "AQs holds exactly the suited ace-queens");
    check!(count_in(&Two::AQo, a1, q2) == (if s1 != s2 { 1 } else { 0 }), "AQo holds exactly the offsuit ace-queens");
    // direction 2: every entry fits the description (sizes are part of the types: 6, 16, 4, 12, 4, 12)
    let i = sym::u8() as usize;
    sym::assume(i < 16);
    let fits = |t: Two, r2: u32, suited: Option<bool>| -> bool {
        let (x, y) = (t.first(), t.second());
        is_card(x) && is_card(y) && rank_of(x) == 12 && rank_of(y) == r2 && x > y
            && match suited {
                None => true,
                Some(b) => (suit_of(x) == suit_of(y)) == b,
            }
    };
    if i < 6 {
        check!(fits(Two::AA[i], 12, None), "AA entry is a pair of aces, higher first");
    }
    check!(fits(Two::AK[i], 11, None), "AK entry is ace-king, ace first");
    if i < 4 {
        check!(fits(Two::AKs[i], 11, Some(true)), "AKs entry suited");
        check!(fits(Two::AQs[i], 10, Some(true)), "AQs entry suited");
    }
    if i < 12 {
        check!(fits(Two::AKo[i], 11, Some(false)), "AKo entry offsuit");
        check!(fits(Two::AQo[i], 10, Some(false)), "AQo entry offsuit");
    }
    cover!(s1 == 0 && s2 == 3, "clubs ace with a spade");
    cover!(i == 15, "last AK entry");
}

fn lex_less(p: [u8; 5], q: [u8; 5]) -> bool {
    let mut k = 0;
    while k < 5 {
        if p[k] != q[k] {
            return p[k] < q[k];
        }
        k += 1;
    }
    false
}

/// slot-index tables: every strictly increasing in-range tuple occurs exactly once, rows increasing
#[cfg_attr(kani, kani::proof)]
#[cfg_attr(kani, kani::unwind(23))]
pub fn c18_slot_tables() {
    // 2-of-4
    let a = sym::u8();
    let b = sym::u8();
    sym::assume(a < b && b < 4);
    let mut n = 0;
    let mut i = 0;
    while i < 6 {
        let row = Four::OMAHA_PERMUTATIONS[i];
        if row[0] == a && row[1] == b {
            n += 1;
        }
        check!(row[0] < row[1] && row[1] < 4, "2-of-4 row strictly increasing and in range");
        i += 1;
    }
    check!(n == 1, "every 2-of-4 slot combination occurs exactly once");
    // rows listed in increasing (lexicographic) order
    let mut i = 0;
    while i + 1 < 6 {
        let (p, q) = (Four::OMAHA_PERMUTATIONS[i], Four::OMAHA_PERMUTATIONS[i + 1]);
        check!(p[0] < q[0] || (p[0] == q[0] && p[1] < q[1]), "2-of-4 rows are listed in increasing order");
        i += 1;
    }
    // 5-of-6 and 5-of-7
    let t = [sym::u8(), sym::u8(), sym::u8(), sym::u8(), sym::u8()];
    sym::assume(t[0] < t[1] && t[1] < t[2] && t[2] < t[3] && t[3] < t[4] && t[4] < 7);
    let mut n7 = 0;
    let mut i = 0;
    while i < 21 {
        let row = Seven::FIVE_CARD_PERMUTATIONS[i];
        if row == t {
            n7 += 1;
        }
        check!(row[0] < row[1] && row[1] < row[2] && row[2] < row[3] && row[3] < row[4] && row[4] < 7, "5-of-7 row strictly increasing and in range");
        i += 1;
    }
    check!(n7 == 1, "every 5-of-7 slot combination occurs exactly once");
    let mut i = 0;
    while i + 1 < 21 {
        check!(lex_less(Seven::FIVE_CARD_PERMUTATIONS[i], Seven::FIVE_CARD_PERMUTATIONS[i + 1]), "5-of-7 rows are listed in increasing order");
        i += 1;
    }
    let mut i = 0;
    while i + 1 < 6 {
        check!(lex_less(Six::FIVE_CARD_PERMUTATIONS[i], Six::FIVE_CARD_PERMUTATIONS[i + 1]), "5-of-6 rows are listed in increasing order");
        i += 1;
    }
    if t[4] < 6 {
        let mut n6 = 0;
        let mut i = 0;
        while i < 6 {
            let row = Six::FIVE_CARD_PERMUTATIONS[i];
            if row == t {
                n6 += 1;
            }
            check!(row[0] < row[1] && row[1] < row[2] && row[2] < row[3] && row[3] < row[4] && row[4] < 6, "5-of-6 row strictly increasing and in range");
            i += 1;
        }
        check!(n6 == 1, "every 5-of-6 slot combination occurs exactly once");
    }
    cover!(t[0] == 2 && t[4] == 6, "the last 5-of-7 combination");
    cover!(t[4] < 6, "a 5-of-6 combination");
}
