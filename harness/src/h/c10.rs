//! C10 — card words follow the documented bit layout; exactly 52 words are cards.
use crate::spec::cards::*;
use crate::spec::consts_gen::{CARD_CONST, RANKS, SUITS};
use crate::sym;
use ckc_rs::deck::POKER_DECK;
use ckc_rs::{CKCNumber, CardNumber, PokerCard};

/// all 14 x 5 (rank, suit) enumeration pairs, blank members included
#[cfg_attr(kani, kani::proof)]
pub fn c10_create() {
    let r = sym::u8() as u32;
    let s = sym::u8() as u32;
    sym::assume(r <= 13 && s <= 4);
    let (r0, s0) = (sym::u8() as usize, sym::u8() as usize);
    sym::assume(r0 <= 13 && s0 <= 4);
    // priming call on an unrelated arbitrary input: a memo / cache in front of a pure function would show here
    let _ = <CKCNumber as PokerCard>::create(RANKS[r0], SUITS[s0]);
    let got = <CKCNumber as PokerCard>::create(RANKS[r as usize], SUITS[s as usize]);
    if r <= 12 && s <= 3 {
        check!(got == word(r, s), "create(rank, suit) is the layout word");
        check!(is_card(got), "created word is a card");
    } else {
        check!(got == 0, "create with a blank member is blank");
    }
    cover!(r == 13 && s <= 3, "blank rank, real suit");
    cover!(r <= 12 && s == 4, "real rank, blank suit");
    cover!(r == 12 && s == 3, "ace of spades");
}

/// the 52 named constants and the deck, against the layout formula
#[cfg_attr(kani, kani::proof)]
pub fn c10_constants_and_deck() {
    let r = sym::u8() as u32;
    let s = sym::u8() as u32;
    sym::assume(r <= 12 && s <= 3);
    check!(CARD_CONST[r as usize][s as usize] == word(r, s), "named constant is the layout word");
    let i = sym::u8() as u32;
    sym::assume(i < 52);
    check!(POKER_DECK.arr()[i as usize] == word(12 - i % 13, 3 - i / 13), "deck entry is the layout word in deck order");
    check!(CardNumber::BLANK == 0, "blank is zero");
    cover!(r == 0 && s == 0 && i == 51, "deuce of clubs, last deck slot");
}

/// every accessor reads its field back, for all 52 cards (and blank)
#[cfg_attr(kani, kani::proof)]
pub fn c10_accessors() {
    let (w, r, s) = any_card();
    check!(w.get_card_rank() == RANKS[r as usize], "get_card_rank");
    check!(w.get_card_suit() == SUITS[s as usize], "get_card_suit");
    check!(w.get_rank_bit() == 1 << r, "get_rank_bit");
    check!(w.get_rank_flag() == 1 << (16 + r), "get_rank_flag");
    check!(w.get_rank_prime() == PRIME[r as usize], "get_rank_prime");
    check!(w.get_suit_bit() == 1 << s, "get_suit_bit");
    check!(w.get_suit_flag() == 1 << (12 + s), "get_suit_flag");
    check!(w.get_rank_char() == RANK_CHARS[r as usize], "get_rank_char");
    check!(w.get_suit_char() == SUIT_GLYPHS[s as usize], "get_suit_char");
    check!(w.get_suit_letter() == SUIT_LETTERS[s as usize], "get_suit_letter");
    check!(!w.is_blank(), "a card is not blank");
    check!(w.as_u32() == w, "as_u32");
    check!(SUITS[s as usize].binary_signature() == 1 << (12 + s), "binary_signature");
    check!(SUITS[4].binary_signature() == 0, "binary_signature of the blank suit");
    let b: u32 = 0;
    check!(b.is_blank() && b.get_card_rank() == RANKS[13] && b.get_card_suit() == SUITS[4], "blank reads as blank");
    check!(b.get_rank_char() == '_' && b.get_suit_char() == '_' && b.get_suit_letter() == '_', "blank characters");
    cover!(r == 8 && s == 2, "ten of hearts");
}

/// all 2^32 words: the filter passes exactly the 52 layout words
#[cfg_attr(kani, kani::proof)]
pub fn c10_filter() {
    let w0 = sym::u32();
    // priming call on an unrelated arbitrary input: a memo / cache in front of a pure function would show here
    let _ = CardNumber::filter(w0);
    let w = sym::u32();
    let expect = if is_card(w) { w } else { 0 };
    check!(CardNumber::filter(w) == expect, "CardNumber::filter passes exactly the cards");
    check!(<CKCNumber as PokerCard>::filter(w) == expect, "PokerCard::filter passes exactly the cards");
    cover!(is_card(w), "a card word");
    cover!(!is_card(w) && w != 0 && (w >> 29) == 0, "a non-card word without flag bits");
}
