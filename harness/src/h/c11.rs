//! C11 — numeric card order is rank-then-suit; sorting is a descending rearrangement.
use crate::spec::cards::*;
use crate::sym;
use ckc_rs::cards::five::Five;
use ckc_rs::cards::four::Four;
use ckc_rs::cards::seven::Seven;
use ckc_rs::cards::six::Six;
use ckc_rs::cards::three::Three;
use ckc_rs::cards::two::Two;
use ckc_rs::cards::HandValidator;

/// all 52 x 52 pairs
#[cfg_attr(kani, kani::proof)]
pub fn c11_card_order() {
    let (w1, r1, s1) = any_card();
    let (w2, r2, s2) = any_card();
    let lex_less = r1 < r2 || (r1 == r2 && s1 < s2);
    check!((w1 < w2) == lex_less, "integer order is rank first, then suit (S>H>D>C)");
    check!((w1 == w2) == (r1 == r2 && s1 == s2), "equal words iff same card");
    check!(0 < w1, "blank is below every card");
    cover!(r1 == r2 && s1 < s2, "same rank, suits decide");
    cover!(r1 < r2 && s1 > s2, "rank beats suit");
}

/// reference: fixed compare-exchange network (bubble), descending
fn ref_sort_desc<const N: usize>(a: [u32; N]) -> [u32; N] {
    let mut x = a;
    let mut pass = 0;
    while pass < N {
        let mut i = 0;
        while i + 1 < N {
            if x[i] < x[i + 1] {
                let t = x[i];
                x[i] = x[i + 1];
                x[i + 1] = t;
            }
            i += 1;
        }
        pass += 1;
    }
    x
}

macro_rules! sort_harness {
    ($name:ident, $ty:ty, $n:expr) => {
        /// arbitrary 32-bit words in every slot
        #[cfg_attr(kani, kani::proof)]
        #[cfg_attr(kani, kani::unwind(9))]
        pub fn $name() {
            let a: [u32; $n] = sym::words::<$n>();
            let h = <$ty>::from(a);
            let s = h.sort();
            let want = ref_sort_desc(a);
            let got = s.to_arr();
            let mut i = 0;
            while i < $n {
                check!(got[i] == want[i], "sort() equals the reference network slot by slot (same multiset, non-increasing)");
                i += 1;
            }
            check!(sym::same(s.sort().to_arr(), got), "sort is idempotent");
            let mut m = h;
            m.sort_in_place();
            check!(sym::same(m.to_arr(), got), "sort_in_place agrees with sort");
            check!(sym::same(h.to_arr(), a), "sort() leaves the original untouched");
            cover!(a[0] < a[$n - 1], "ascending ends");
            cover!(a[0] == a[$n - 1] && a[0] != 0, "a duplicate word");
            cover!(a[0] > a[$n - 1], "descending ends");
        }
    };
}
sort_harness!(c11_sort_two, Two, 2);
sort_harness!(c11_sort_three, Three, 3);
sort_harness!(c11_sort_four, Four, 4);
sort_harness!(c11_sort_five, Five, 5);
sort_harness!(c11_sort_six, Six, 6);
sort_harness!(c11_sort_seven, Seven, 7);
