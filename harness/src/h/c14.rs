//! C14 — bit-set card form and word form are mutually inverse over the 52 cards.
use crate::spec::cards::*;
use crate::spec::consts_gen::BC_CONST;
use crate::sym;
use ckc_rs::cards::binary_card::{BinaryCard, BC64};
use ckc_rs::deck::POKER_DECK;
use ckc_rs::{CKCNumber, PokerCard};

/// all 2^32 words
#[cfg_attr(kani, kani::proof)]
pub fn c14_word_to_bit() {
    let w0 = sym::u32();
    // priming call on an unrelated arbitrary input: a memo / cache in front of a pure function would show here
    let _ = <BinaryCard as BC64>::from_ckc(w0);
    let w = sym::u32();
    let b = <BinaryCard as BC64>::from_ckc(w);
    check!(b == set_bit_of_word(w), "from_ckc: card -> its deck-order bit, anything else -> empty");
    if is_card(w) {
        check!(<CKCNumber as PokerCard>::from_binary_card(b) == w, "word -> bit -> word round trip");
    }
    cover!(is_card(w), "a card");
    cover!(!is_card(w) && w != 0, "a non-card word");
    cover!(is_card(w0) && !is_card(w) && (w0 >> 8) & 0xFF == (w >> 8) & 0xFF, "a damaged copy of the card converted just before");
}

/// all 2^64 bit-set values
#[cfg_attr(kani, kani::proof)]
pub fn c14_bit_to_word() {
    let b0 = sym::u64();
    // priming call on an unrelated arbitrary input: a memo / cache in front of a pure function would show here
    let _ = <CKCNumber as PokerCard>::from_binary_card(b0);
    let b = sym::u64();
    let w = <CKCNumber as PokerCard>::from_binary_card(b);
    let single = b != 0 && (b & (b - 1)) == 0;
    if single && (b >> 52) == 0 {
        let p = b.trailing_zeros();
        check!(w == deck_word(51 - p), "single card bit p -> deck card 51-p");
        check!(<BinaryCard as BC64>::from_ckc(w) == b, "bit -> word -> bit round trip");
    } else {
        check!(w == 0, "anything that is not exactly one card bit -> blank");
    }
    cover!(single && (b >> 52) == 0, "one card bit");
    cover!(single && (b >> 52) != 0, "one overflow bit");
    cover!(b.count_ones() == 2, "two bits");
}

/// constants and deck arrays
#[cfg_attr(kani, kani::proof)]
pub fn c14_constants() {
    let (w, r, s) = any_card();
    check!(BC_CONST[r as usize][s as usize] == set_bit(r, s), "named bit constant is bit 51 - deck position");
    check!(<BinaryCard as BC64>::from_ckc(w) == BC_CONST[r as usize][s as usize], "from_ckc gives the named constant");
    let i = sym::u8() as usize;
    sym::assume(i < 52);
    check!(<BinaryCard as BC64>::DECK[i] == 1u64 << (51 - i), "bit-form deck in deck order");
    check!(<BinaryCard as BC64>::from_ckc(POKER_DECK.arr()[i]) == <BinaryCard as BC64>::DECK[i], "word deck and bit deck correspond");
    check!(<BinaryCard as BC64>::BLANK == 0, "blank set is empty");
    check!(<BinaryCard as BC64>::ALL == (1u64 << 52) - 1, "ALL is the 52 card bits");
    check!(<BinaryCard as BC64>::OVERFLOW == !((1u64 << 52) - 1), "OVERFLOW is everything above");
    cover!(i == 0 && r == 12 && s == 3, "ace of spades, bit 51");
}
