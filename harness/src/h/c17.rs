//! C17 — starting-hand score equals the Chen formula for every two-card hand.
use crate::spec::cards::*;
use crate::sym;
use ckc_rs::cards::two::Two;
use ckc_rs::cards::HandValidator;
use ckc_rs::{PokerCard, Shifty};

/// high-card points in half-points: ace 10, king 8, queen 7, jack 6, otherwise half the pip value
fn half_points(r: u32) -> i32 {
    match r {
        12 => 20,
        11 => 16,
        10 => 14,
        9 => 12,
        _ => (r + 2) as i32, // pip value = r + 2, half of it, in half-points
    }
}

/// Bill Chen's formula in integer half-points, rounded half-up at the end
fn chen(r1: u32, s1: u32, r2: u32, s2: u32) -> i32 {
    let hi = if r1 > r2 { r1 } else { r2 };
    let lo = if r1 > r2 { r2 } else { r1 };
    let mut t = half_points(hi);
    if r1 == r2 {
        t = if 2 * t > 10 { 2 * t } else { 10 };
    } else {
        let gap = hi - lo - 1;
        t -= 2 * match gap {
            0 => 0,
            1 => 1,
            2 => 2,
            3 => 4,
            _ => 5,
        };
        if gap < 2 && hi < 10 {
            t += 2;
        }
    }
    if s1 == s2 {
        t += 4;
    }
    (t + 1).div_euclid(2)
}

/// all 52 x 51 ordered pairs of distinct cards
#[cfg_attr(kani, kani::proof)]
#[cfg_attr(kani, kani::unwind(4))]
pub fn c17_chen() {
    let (w1, r1, s1) = any_card();
    let (w2, r2, s2) = any_card();
    sym::assume(w1 != w2);
    let h = Two::new(w1, w2);
    // priming call on an unrelated arbitrary input: a memo / cache in front of a pure function would show here
    let _ = Two::new(w2, word((r1 + 5) % 13, (s2 + 1) % 4)).chen_formula();
    let hi = if r1 > r2 { r1 } else { r2 };
    let lo = if r1 > r2 { r2 } else { r1 };
    let gap = if hi == lo { 0 } else { hi - lo - 1 };
    check!(h.chen_formula() as i32 == chen(r1, s1, r2, s2), "chen_formula equals Bill Chen's formula");
    check!(h.get_gap() as u32 == gap, "gap = ranks strictly between the two cards");
    check!(h.high_card() == if w1 > w2 { w1 } else { w2 }, "high_card is the higher card");
    check!(h.is_pocket_pair() == (r1 == r2), "pocket pair iff same rank");
    check!(h.is_suited() == (s1 == s2), "suited iff same suit");
    check!(h.is_connector() == (gap == 0), "connector iff gap 0");
    check!(h.is_suited_connector() == (s1 == s2 && gap == 0), "suited connector iff both");
    let rev = Two::new(w2, w1);
    check!(rev.chen_formula() == h.chen_formula(), "score ignores slot order");
    check!(rev.get_gap() == h.get_gap() && rev.high_card() == h.high_card(), "helpers ignore slot order");
    check!(h.shift_suit().chen_formula() == h.chen_formula(), "score ignores suit shifting");
    cover!(r1 != r2 && gap == 1 && s1 == s2, "suited one-gapper");
    cover!(gap == 3 && hi < 10, "three-gapper below the queen");
    cover!(r1 == r2 && r1 == 0, "pocket deuces (minimum 5)");
    cover!(gap == 2, "two-gapper");
}

/// per-card points, all 52 cards and blank
#[cfg_attr(kani, kani::proof)]
pub fn c17_points() {
    let (w, r, _s) = any_card();
    let p = w.get_chen_points();
    check!(p * 2.0 == half_points(r) as f32, "per-card points: A 10, K 8, Q 7, J 6, else half the pip value");
    let b: u32 = 0;
    check!(b.get_chen_points() == 0.0, "blank scores nothing");
    cover!(r == 7, "a nine (4.5 points)");
    cover!(r == 12, "an ace");
}
