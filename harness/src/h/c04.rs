//! C04 — validity and validated ranking on arbitrary 32-bit words.
use crate::spec::cards::is_card;
use crate::sym;
use crate::wiring;
use ckc_rs::cards::five::Five;
use ckc_rs::cards::four::Four;
use ckc_rs::cards::seven::Seven;
use ckc_rs::cards::six::Six;
use ckc_rs::cards::three::Three;
use ckc_rs::cards::two::Two;
use ckc_rs::cards::{HandRanker, HandValidator};
use ckc_rs::hand_rank::HandRank;

pub fn spec_valid<const N: usize>(a: [u32; N]) -> (bool, bool, bool, bool) {
    // (all cards, pairwise distinct, any blank, any == u32::MAX)
    let mut cards = true;
    let mut distinct = true;
    let mut blank = false;
    let mut maxw = false;
    let mut i = 0;
    while i < N {
        if !is_card(a[i]) {
            cards = false;
        }
        if a[i] == 0 {
            blank = true;
        }
        if a[i] == u32::MAX {
            maxw = true;
        }
        let mut j = 0;
        while j < i {
            if a[i] == a[j] {
                distinct = false;
            }
            j += 1;
        }
        i += 1;
    }
    (cards, distinct, blank, maxw)
}

macro_rules! validity {
    ($name:ident, $ty:ty, $n:expr, $sentinel:expr) => {
        /// arbitrary 32-bit words in every slot
        #[cfg_attr(kani, kani::proof)]
        #[cfg_attr(kani, kani::unwind(9))]
        pub fn $name() {
            let a: [u32; $n] = sym::words::<$n>();
            let h = <$ty>::from(a);
            let (cards, distinct, blank, maxw) = spec_valid(a);
            check!(h.is_valid() == (cards && distinct), "valid iff every slot is one of the 52 cards and no two slots are equal");
            check!(h.is_corrupt() == !cards, "corrupt iff some slot is not a card");
            check!(h.contain_blank() == blank, "contain_blank iff some slot is 0");
            if !$sentinel {
                check!(h.are_unique() == distinct, "are_unique iff no two slots are equal");
            }
            let _ = maxw;
            cover!(cards && !distinct, "real cards with a duplicate");
            cover!(cards && distinct, "a valid hand");
            cover!(!cards && distinct && !blank, "a near-miss word");
            cover!(distinct && a[0] == a[$n - 1].wrapping_add(1), "first and last slot differ by one");
        }
    };
}
validity!(c04_valid_two, Two, 2, false);
validity!(c04_valid_three, Three, 3, false);
validity!(c04_valid_four, Four, 4, false);
validity!(c04_valid_five, Five, 5, false);
validity!(c04_valid_six, Six, 6, true);
validity!(c04_valid_seven, Seven, 7, true);

macro_rules! uniqueness {
    ($name:ident, $ty:ty, $n:expr) => {
        /// sort-and-scan uniqueness test on arbitrary words (0xFFFFFFFF is its scan sentinel: excluded, validity unaffected)
        #[cfg_attr(kani, kani::proof)]
        #[cfg_attr(kani, kani::unwind(9))]
        pub fn $name() {
            let a: [u32; $n] = sym::words::<$n>();
            let (_c, distinct, _b, maxw) = spec_valid(a);
            sym::assume(!maxw);
            check!(<$ty>::from(a).are_unique() == distinct, "are_unique iff no two slots are equal");
            cover!(!distinct, "a duplicate");
            cover!(distinct, "all different");
        }
    };
}
uniqueness!(c04_unique_six, Six, 6);
uniqueness!(c04_unique_seven, Seven, 7);

macro_rules! wiring_validated {
    ($name:ident, $ty:ty, $n:expr, $stub:path, $five:expr) => {
        /// arbitrary words; the primitive `hand_rank_value_and_hand` is an arbitrary function; real `is_valid`
        #[cfg_attr(kani, kani::proof)]
        #[cfg_attr(kani, kani::unwind(9))]
        #[cfg_attr(kani, kani::stub(<$ty as ckc_rs::cards::HandRanker>::hand_rank_value_and_hand, $stub))]
        pub fn $name() {
            let a: [u32; $n] = sym::words::<$n>();
            let fv = sym::u16();
            let fh: [u32; 5] = sym::words::<5>();
            let h = <$ty>::from(a);
            let (cards, distinct, _b, _m) = spec_valid(a);
            let valid = cards && distinct;
            // priming: the validated entry point on another arbitrary array first (a validation memo would show)
            let a0: [u32; $n] = sym::words::<$n>();
            let (c0, d0, _b0, _m0) = spec_valid(a0);
            #[cfg(not(kani))]
            sym::assume(!(c0 && d0) || true);
            wiring::begin(2);
            wiring::expect_k(0, &a, fv, fh);
            wiring::expect_k(1, &a0, sym::u16(), fh);
            let _ = <$ty>::from(a0).hand_rank_value_validated();
            let _ = (c0, d0);
            unsafe { wiring::CALLS = 0 };
            // the validated entry point is total on arbitrary words
            let vv = if $five { ckc_rs::evaluate::five_cards([a[0], a[1], a[2], a[3], a[4]]) } else { h.hand_rank_value_validated() };
            if !valid {
                check!(vv == 0, "validated value is 0 for a hand that is not valid");
                #[cfg(kani)]
                check!(wiring::calls() == 0, "validated ranking of an invalid hand never reaches the evaluator");
            } else {
                let (pv, _ph) = h.hand_rank_value_and_hand();
                check!(vv == pv, "validated value equals the unvalidated value on a valid hand");
                check!(vv != 0 || cfg!(kani), "a valid hand has a non-zero value (real evaluator, native replay only)");
            }
            #[cfg(not(kani))]
            nasty_family::<$n>(|w| <$ty>::from(w).hand_rank_value_validated());
            cover!(valid, "a valid hand");
            cover!(!valid && cards, "duplicate real cards");
            cover!(!cards, "a corrupt hand");
        }
    };
}
wiring_validated!(c04_validated_five, ckc_rs::cards::five::Five, 5, crate::wiring::stub_five, true);
wiring_validated!(c04_validated_six, ckc_rs::cards::six::Six, 6, crate::wiring::stub_six, false);
wiring_validated!(c04_validated_seven, ckc_rs::cards::seven::Seven, 7, crate::wiring::stub_seven, false);

#[cfg(kani)]
pub fn stub_validated_five(_h: &Five) -> u16 {
    unsafe { crate::wiring::VVAL }
}
#[cfg(kani)]
pub fn stub_validated_six(_h: &Six) -> u16 {
    unsafe { crate::wiring::VVAL }
}
#[cfg(kani)]
pub fn stub_validated_seven(_h: &Seven) -> u16 {
    unsafe { crate::wiring::VVAL }
}

macro_rules! wiring_defaults {
    ($name:ident, $ty:ty, $n:expr, $stub:path, $vstub:path, $five:expr) => {
        /// trait-default wiring: with BOTH primitives arbitrary, hand_rank_value / hand_rank / hand_rank_validated
        /// (and, for Five, evaluate::five_cards) are exactly the primitives' results; arbitrary words
        #[cfg_attr(kani, kani::proof)]
        #[cfg_attr(kani, kani::unwind(9))]
        #[cfg_attr(kani, kani::stub(<$ty as ckc_rs::cards::HandRanker>::hand_rank_value_and_hand, $stub))]
        #[cfg_attr(kani, kani::stub(<$ty as ckc_rs::cards::HandRanker>::hand_rank_value_validated, $vstub))]
        pub fn $name() {
            let a: [u32; $n] = sym::words::<$n>();
            let fv = sym::u16();
            let fvv = sym::u16();
            let fh: [u32; 5] = sym::words::<5>();
            let h = <$ty>::from(a);
            wiring::expect(&a, fv, fh);
            unsafe { wiring::VVAL = fvv };
            #[cfg(not(kani))]
            {
                // natively the real code runs: only exercise the unvalidated entry points on valid hands
                let (cards, distinct, _b, _m) = spec_valid(a);
                sym::assume(cards && distinct);
            }
            let (pv, ph) = h.hand_rank_value_and_hand();
            let vv = h.hand_rank_value_validated();
            check!(h.hand_rank_value() == pv, "hand_rank_value is the value half of hand_rank_value_and_hand");
            let hr = h.hand_rank();
            check!(hr == HandRank::from(pv) && hr.value == pv, "hand_rank is the rank of the hand's value and carries it");
            check!(h.hand_rank_validated() == HandRank::from(vv), "hand_rank_validated is the rank of the validated value");
            if $five {
                check!(ckc_rs::evaluate::five_cards([a[0], a[1], a[2], a[3], a[4]]) == vv, "evaluate::five_cards is the validated five-card value");
            }
            let _ = ph;
            cover!(pv != vv, "validated and unvalidated primitives differ");
            cover!(pv == 0, "primitive returns 0");
        }
    };
}
wiring_defaults!(c04_defaults_five, ckc_rs::cards::five::Five, 5, crate::wiring::stub_five, stub_validated_five, true);
wiring_defaults!(c04_defaults_six, ckc_rs::cards::six::Six, 6, crate::wiring::stub_six, stub_validated_six, false);
wiring_defaults!(c04_defaults_seven, ckc_rs::cards::seven::Seven, 7, crate::wiring::stub_seven, stub_validated_seven, false);

macro_rules! invalid_real {
    ($name:ident, $ty:ty, $n:expr, $five:expr) => {
        /// REAL code, nothing stubbed: every array of arbitrary words that is NOT a valid hand — the validated entry
        /// points return 0 and never panic (so the evaluator, which may index out of range on such words, is not reached)
        #[cfg_attr(kani, kani::proof)]
        #[cfg_attr(kani, kani::unwind(23))]
        pub fn $name() {
            let a: [u32; $n] = sym::words::<$n>();
            let (cards, distinct, _b, _m) = spec_valid(a);
            sym::assume(!(cards && distinct));
            let h = <$ty>::from(a);
            check!(h.hand_rank_value_validated() == 0, "validated value of a non-hand is 0");
            check!(h.hand_rank_validated() == HandRank::from(0), "validated rank of a non-hand is Invalid");
            if $five {
                check!(ckc_rs::evaluate::five_cards([a[0], a[1], a[2], a[3], a[4]]) == 0, "evaluate::five_cards of a non-hand is 0");
            }
            cover!(!cards && a[0] >> 29 != 0, "a word with flag bits");
            cover!(cards && !distinct, "duplicate real cards");
            cover!(!cards && (a[0] & a[1] & 0xF000) != 0 && a[0] != a[1], "non-cards sharing a suit bit");
        }
    };
}
invalid_real!(c04_invalid_five_real, Five, 5, true);
// (Six/Seven: the same claim is c04_validated_six/seven with the evaluator abstracted — with the real evaluator
// behind the validity test the formula does not finish; their native replay runs `nasty_family` on the real code.)

/// native family for the validated entry points: word patterns on which the unvalidated evaluator indexes past its
/// tables (flag bits on a flush, all ones, rank-OR exactly 7937, a near-miss card) — validated ranking must return 0
#[cfg(not(kani))]
pub fn nasty_family<const N: usize>(validated: impl Fn([u32; N]) -> u16) {
    use crate::spec::cards::word;
    let royal = [word(12, 3), word(11, 3), word(10, 3), word(9, 3), word(8, 3), word(7, 3), word(6, 3)];
    let mut pats: Vec<[u32; N]> = Vec::new();
    pats.push([u32::MAX; N]);
    let mut flagged = [0u32; N];
    let mut nearmiss = [0u32; N];
    let mut suitless = [0u32; N];
    for i in 0..N {
        flagged[i] = royal[i];
        nearmiss[i] = royal[i];
        suitless[i] = word(12 - i as u32, (i % 4) as u32);
    }
    flagged[0] |= 1 << 29;
    nearmiss[1] ^= 1;
    suitless[N - 1] = 0x0101_0000;
    pats.push(flagged);
    pats.push(nearmiss);
    pats.push(suitless);
    // valid hands at the extremes of the value range must rank non-zero without panicking (debug assertions included)
    let worst = [word(6, 0), word(5, 1), word(3, 2), word(2, 3), word(1, 0), word(0, 1), word(7, 2)]; // 8 7 5 4 3 2 (+9)
    let mut wv = [0u32; N];
    let mut rv = [0u32; N];
    for i in 0..N {
        wv[i] = worst[i];
        rv[i] = royal[i];
    }
    for v in [wv, rv] {
        let mut q = v;
        q.reverse();
        for w in [v, q] {
            if validated(w) == 0 {
                crate::sym::native::note(format!("validated ranking of the valid hand {:x?} is 0", w));
                crate::sym::native::fail("extreme-hand family on the real code: a valid hand ranks 0");
                return;
            }
        }
    }
    // history: a valid hand first, then its near-miss twin (same rank and suit bits, wrong prime): still 0
    let mut valid_twin = [0u32; N];
    for i in 0..N {
        valid_twin[i] = royal[i];
    }
    let _ = validated(valid_twin);
    if validated(nearmiss) != 0 {
        crate::sym::native::note(format!("after validating {:x?}, the near-miss {:x?} ranks non-zero", valid_twin, nearmiss));
        crate::sym::native::fail("history family on the real code: a near-miss of a just-validated hand is accepted");
        return;
    }
    for p in pats {
        let mut q = p;
        q.reverse();
        for w in [p, q] {
            if validated(w) != 0 {
                crate::sym::native::note(format!("validated ranking of {:x?} is not 0", w));
                crate::sym::native::fail("nasty-word family on the real code: validated ranking of a non-hand is not 0");
                return;
            }
        }
    }
}
