//! C16 — Two from a bit-set: succeeds exactly for two card bits, round-trips.
use crate::spec::cards::*;
use crate::sym;
use ckc_rs::cards::binary_card::{BinaryCard, BC64};
use ckc_rs::cards::two::Two;
use ckc_rs::cards::HandValidator;
use ckc_rs::HandError;

/// all 2^64 bit-set values
#[cfg_attr(kani, kani::proof)]
#[cfg_attr(kani, kani::unwind(53))]
pub fn c16_two_from_bits() {
    let b = sym::u64();
    let n = b.count_ones();
    // priming call on an unrelated arbitrary input: a memo / cache in front of a pure function would show here
    let _ = Two::try_from(b.rotate_left(7) ^ 0x5555);
    let r = Two::try_from(b);
    if n < 2 {
        check!(r == Err(HandError::NotEnoughCards), "fewer than two bits: NotEnoughCards");
    } else if n > 2 {
        check!(r == Err(HandError::TooManyCards), "more than two bits: TooManyCards");
    } else if (b >> 52) != 0 {
        check!(r == Err(HandError::InvalidBinaryFormat), "two bits, not both card bits: InvalidBinaryFormat");
    } else {
        let hi = 63 - b.leading_zeros();
        let lo = b.trailing_zeros();
        match r {
            Ok(two) => {
                check!(two.first() == deck_word(51 - hi), "first slot: the earlier card in deck order");
                check!(two.second() == deck_word(51 - lo), "second slot: the later card in deck order");
                check!(<BinaryCard as BC64>::from_two(two) == b, "round trip back to the same set");
                check!(two.is_valid(), "result is a valid hand");
            }
            Err(_) => check!(false, "two card bits must convert"),
        }
    }
    cover!(n == 2 && (b >> 52) == 0, "two card bits");
    cover!(n == 2 && (b >> 52) != 0 && (b & ((1u64 << 52) - 1)) != 0, "one card bit and one overflow bit");
    cover!(n == 1, "one bit");
    cover!(n == 3, "three bits");
}
