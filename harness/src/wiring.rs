//! Uninterpreted `hand_rank_value_and_hand` for the *wiring* harnesses: the trait-default entry points
//! (`hand_rank_value`, `hand_rank`, `hand_rank_validated`) and the validated entry point are checked against
//! an arbitrary primitive.  The stub returns one pre-drawn arbitrary result for the expected hand (so repeated
//! calls agree, as for any function) and records whether it was called at all.
use ckc_rs::cards::five::Five;

pub static mut EXPECT: [u32; 7] = [0; 7];
pub static mut NSLOT: usize = 0;
pub static mut VAL: u16 = 0;
pub static mut HAND: [u32; 5] = [0; 5];
pub static mut CALLS: u32 = 0;
pub static mut VVAL: u16 = 0;

pub fn expect(a: &[u32], val: u16, hand: [u32; 5]) {
    unsafe {
        NSLOT = a.len();
        let mut i = 0;
        while i < a.len() {
            EXPECT[i] = a[i];
            i += 1;
        }
        VAL = val;
        HAND = hand;
        CALLS = 0;
    }
}

pub fn calls() -> u32 {
    unsafe { CALLS }
}

#[cfg(kani)]
fn answer(a: &[u32]) -> (u16, Five) {
    unsafe {
        CALLS += 1;
        let mut same = a.len() == NSLOT;
        let mut i = 0;
        while i < a.len() {
            if EXPECT[i] != a[i] {
                same = false;
            }
            i += 1;
        }
        if same {
            (VAL, Five::from(HAND))
        } else {
            (kani::any(), Five::from(kani::any::<[u32; 5]>()))
        }
    }
}

#[cfg(kani)]
pub fn stub_five(h: &Five) -> (u16, Five) {
    answer(&h.to_arr())
}
#[cfg(kani)]
pub fn stub_six(h: &ckc_rs::cards::six::Six) -> (u16, Five) {
    answer(&h.to_arr())
}
#[cfg(kani)]
pub fn stub_seven(h: &ckc_rs::cards::seven::Seven) -> (u16, Five) {
    answer(&h.to_arr())
}
