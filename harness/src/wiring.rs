//! Uninterpreted `hand_rank_value_and_hand` for the *wiring* and *history* harnesses: the trait-default entry
//! points (`hand_rank_value`, `hand_rank`, `hand_rank_validated`) and the validated entry point are checked against
//! an arbitrary primitive.  The stub returns pre-drawn arbitrary results for up to two expected hands (so repeated
//! calls agree, as for any function), fresh values for anything else, and counts its calls.
use ckc_rs::cards::five::Five;

pub static mut EXPECT: [[u32; 7]; 4] = [[0; 7]; 4];
pub static mut NSLOT: [usize; 4] = [0; 4];
pub static mut VAL: [u16; 4] = [0; 4];
pub static mut HAND: [[u32; 5]; 4] = [[0; 5]; 4];
pub static mut NEXP: usize = 0;
pub static mut CALLS: u32 = 0;
pub static mut VVAL: u16 = 0;

fn set(i: usize, a: &[u32], val: u16, hand: [u32; 5]) {
    unsafe {
        NSLOT[i] = a.len();
        let mut k = 0;
        while k < a.len() {
            EXPECT[i][k] = a[k];
            k += 1;
        }
        VAL[i] = val;
        HAND[i] = hand;
    }
}

pub fn expect(a: &[u32], val: u16, hand: [u32; 5]) {
    set(0, a, val, hand);
    unsafe {
        NEXP = 1;
        CALLS = 0;
    }
}

pub fn expect2(a0: &[u32], val0: u16, hand0: [u32; 5], a1: &[u32], val1: u16, hand1: [u32; 5]) {
    set(0, a0, val0, hand0);
    set(1, a1, val1, hand1);
    unsafe {
        NEXP = 2;
        CALLS = 0;
    }
}

/// k-th expectation of a longer history (k < 4); call `begin(n)` first
pub fn begin(n: usize) {
    unsafe {
        NEXP = n;
        CALLS = 0;
    }
}
pub fn expect_k(k: usize, a: &[u32], val: u16, hand: [u32; 5]) {
    set(k, a, val, hand);
}

pub fn calls() -> u32 {
    unsafe { CALLS }
}

#[cfg(kani)]
fn answer(a: &[u32]) -> (u16, Five) {
    unsafe {
        CALLS += 1;
        let mut e = 0;
        while e < 4 {
            if e < NEXP {
                let mut same = a.len() == NSLOT[e];
                let mut i = 0;
                while i < a.len() {
                    if EXPECT[e][i] != a[i] {
                        same = false;
                    }
                    i += 1;
                }
                if same {
                    return (VAL[e], Five::from(HAND[e]));
                }
            }
            e += 1;
        }
        (kani::any(), Five::from(kani::any::<[u32; 5]>()))
    }
}

#[cfg(kani)]
pub fn stub_five(h: &Five) -> (u16, Five) {
    answer(&h.to_arr())
}
#[cfg(kani)]
pub fn stub_six(h: &ckc_rs::cards::six::Six) -> (u16, Five) {
    answer(&h.to_arr())
}
#[cfg(kani)]
pub fn stub_seven(h: &ckc_rs::cards::seven::Seven) -> (u16, Five) {
    answer(&h.to_arr())
}
