//! S6 — token-stream abstraction for the hand parsers.
//!
//! Under Kani, `<SplitWhitespace as Iterator>::next` is replaced by a stub that yields `n` fixed distinct
//! tokens "#0".."#8", and `<u32 as PokerCard>::from_index` by a stub that maps token `#k` to the symbolic
//! word `V[k]` (each V[k] ranges over {52 cards, blank} — the exact range of the real token parser, which
//! C12's token harness establishes on raw bytes).  The hand parsers' own wiring stays real.
//! Natively nothing is stubbed: `install` renders the tokens into a real string and the real splitter and
//! token parser run.
use ckc_rs::PokerCard;

pub static mut N: usize = 0;
/// position per live iterator, identified by its address (a parser may create more than one iterator;
/// each starts at the first token, as the real `split_whitespace` does)
pub static mut ITER: [usize; 4] = [0; 4];
pub static mut POS: [usize; 4] = [0; 4];
pub static mut NITER: usize = 0;
pub static mut V: [u32; 9] = [0; 9];
pub static TOKENS: [&str; 9] = ["#0", "#1", "#2", "#3", "#4", "#5", "#6", "#7", "#8"];

#[cfg(kani)]
pub fn install(n: usize, v: [u32; 9]) -> &'static str {
    unsafe {
        N = n;
        V = v;
        NITER = 0;
    }
    "(token stream is abstract)"
}

#[cfg(not(kani))]
pub fn install(n: usize, v: [u32; 9]) -> &'static str {
    let mut s = String::new();
    for k in 0..n {
        if k > 0 {
            // every separator is whitespace per `char::is_whitespace`, ASCII and not
            s.push([' ', '\u{a0}', '\t', '\u{2003}', '\n', '\u{3000}', '\u{b}', '\u{2028}'][k % 8]);
        }
        let w = v[k];
        if w == 0 {
            s.push_str("XX");
        } else {
            s.push(w.get_rank_char());
            s.push(if k % 2 == 0 { w.get_suit_char() } else { w.get_suit_letter() });
        }
    }
    Box::leak(s.into_boxed_str())
}

/// start a fresh token stream (every parser call creates a new iterator)
pub fn rewind() {
    unsafe { NITER = 0 }
}

#[cfg(kani)]
pub fn stub_next<'a>(it: &mut core::str::SplitWhitespace<'a>) -> Option<&'a str>
where
    'a: 'a,
{
    let id = it as *mut core::str::SplitWhitespace<'a> as usize;
    unsafe {
        let mut slot = 4usize;
        let mut i = 0;
        while i < 4 {
            if i < NITER && ITER[i] == id && slot == 4 {
                slot = i;
            }
            i += 1;
        }
        if slot == 4 {
            kani::assert(NITER < 4, "S6: more than four token iterators in one parser call");
            slot = NITER;
            ITER[slot] = id;
            POS[slot] = 0;
            NITER += 1;
        }
        if POS[slot] < N {
            let t = TOKENS[POS[slot]];
            POS[slot] += 1;
            Some(t)
        } else {
            None
        }
    }
}

/// token `#k` -> V[k]; anything else (e.g. an empty default token) parses to blank, as the real token parser does
#[cfg(kani)]
pub fn stub_from_index(index: &str) -> u32 {
    let b = index.as_bytes();
    if b.len() != 2 || b[0] != b'#' || b[1] < b'0' || b[1] > b'8' {
        return 0;
    }
    let k = (b[1] - b'0') as usize;
    unsafe { V[k] }
}

// ---------------------------------------------------------------- long streams (bit-set parser only)
// `BC64::from_index` folds EVERY token in and creates exactly one iterator, so a long stream needs neither
// distinct token texts nor per-iterator positions: token k is the k-th call of `next`, and the token parser
// call that follows it returns LV[k].
pub const LMAX: usize = 64;
pub static mut LN: usize = 0;
pub static mut LPOS: usize = 0;
pub static mut LV: [u32; LMAX] = [0; LMAX];

#[cfg(kani)]
pub fn install_long(n: usize, v: [u32; LMAX]) -> &'static str {
    unsafe {
        LN = n;
        LV = v;
        LPOS = 0;
    }
    "(long token stream is abstract)"
}

#[cfg(not(kani))]
pub fn install_long(n: usize, v: [u32; LMAX]) -> &'static str {
    let mut s = String::new();
    for k in 0..n {
        if k > 0 {
            s.push([' ', '\t', '\n', '\u{a0}'][k % 4]);
        }
        let w = v[k];
        if w == 0 {
            s.push_str("XX");
        } else {
            s.push(w.get_rank_char());
            s.push(if k % 2 == 0 { w.get_suit_char() } else { w.get_suit_letter() });
        }
    }
    Box::leak(s.into_boxed_str())
}

#[cfg(kani)]
pub fn stub_next_long<'a>(_it: &mut core::str::SplitWhitespace<'a>) -> Option<&'a str>
where
    'a: 'a,
{
    unsafe {
        if LPOS < LN {
            LPOS += 1;
            Some("#")
        } else {
            None
        }
    }
}

/// the token handed out last -> its symbolic word
#[cfg(kani)]
pub fn stub_from_index_long(_index: &str) -> u32 {
    unsafe {
        kani::assert(LPOS >= 1 && LPOS <= LMAX, "S6-long: token parser called without a token");
        LV[(LPOS - 1) % LMAX]
    }
}
