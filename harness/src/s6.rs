//! S6 — token-stream abstraction for the hand parsers.
//!
//! Under Kani, `<SplitWhitespace as Iterator>::next` is replaced by a stub that yields `n` fixed distinct
//! tokens "#0".."#8", and `<u32 as PokerCard>::from_index` by a stub that maps token `#k` to the symbolic
//! word `V[k]` (each V[k] ranges over {52 cards, blank} — the exact range of the real token parser, which
//! C12's token harness establishes on raw bytes).  The hand parsers' own wiring stays real.
//! Natively nothing is stubbed: `install` renders the tokens into a real string and the real splitter and
//! token parser run.
use ckc_rs::PokerCard;

pub static mut N: usize = 0;
pub static mut POS: usize = 0;
pub static mut V: [u32; 9] = [0; 9];
pub static TOKENS: [&str; 9] = ["#0", "#1", "#2", "#3", "#4", "#5", "#6", "#7", "#8"];

#[cfg(kani)]
pub fn install(n: usize, v: [u32; 9]) -> &'static str {
    unsafe {
        N = n;
        V = v;
        POS = 0;
    }
    "(token stream is abstract)"
}

#[cfg(not(kani))]
pub fn install(n: usize, v: [u32; 9]) -> &'static str {
    let mut s = String::new();
    for k in 0..n {
        if k > 0 {
            s.push(if k % 2 == 0 { '\t' } else { ' ' });
        }
        let w = v[k];
        if w == 0 {
            s.push_str("XX");
        } else {
            s.push(w.get_rank_char());
            s.push(if k % 2 == 0 { w.get_suit_char() } else { w.get_suit_letter() });
        }
    }
    Box::leak(s.into_boxed_str())
}

/// start a fresh token stream (every parser call creates a new iterator)
pub fn rewind() {
    unsafe { POS = 0 }
}

#[cfg(kani)]
pub fn stub_next<'a>(_it: &mut core::str::SplitWhitespace<'a>) -> Option<&'a str>
where
    'a: 'a,
{
    unsafe {
        if POS < N {
            let t = TOKENS[POS];
            POS += 1;
            Some(t)
        } else {
            None
        }
    }
}

#[cfg(kani)]
pub fn stub_from_index(index: &str) -> u32 {
    let b = index.as_bytes();
    let k = (b[1] - b'0') as usize;
    unsafe { V[k] }
}
