//! Native replay of a solver model against the real ckc-rs build.
//!
//!   replay <harness-name> <v0> <v1> ...     values = the harness's draws, in draw order
//!   replay --list
//!   replay --selftest                       oracle self-validation used by setup
//!
//! Prints one line `REPLAY harness=<h> profile=<dev|release> result=<HOLDS|VIOLATES|NOT-APPLICABLE> ...`.
//! VIOLATES = a `check!` of the harness failed on the real code, or the real code panicked.
use ckc_verif::registry::HARNESSES;
use ckc_verif::sym::native;
use std::panic;

mod selftest;

fn main() {
    let args: Vec<String> = std::env::args().skip(1).collect();
    let profile = if cfg!(debug_assertions) { "dev" } else { "release" };
    if args.is_empty() {
        eprintln!("usage: replay <harness> <values...> | --list | --selftest");
        std::process::exit(64);
    }
    if args[0] == "--list" {
        for (n, p, _) in HARNESSES {
            println!("{n} {p}");
        }
        return;
    }
    if args[0] == "--selftest" {
        std::process::exit(selftest::run());
    }
    let name = &args[0];
    let Some((_, _, f)) = HARNESSES.iter().find(|(n, _, _)| n == name) else {
        eprintln!("unknown harness {name}");
        std::process::exit(64);
    };
    let vals: Vec<u64> = args[1..].iter().map(|s| s.parse::<u128>().map(|v| v as u64).expect("value")).collect();
    native::load(vals);
    panic::set_hook(Box::new(|_| {}));
    let r = panic::catch_unwind(|| f());
    let _ = panic::take_hook();
    let (failed, covered, exhausted, used) = native::ST.with(|s| {
        let s = s.borrow();
        (s.failed.clone(), s.covered.clone(), s.exhausted, s.pos)
    });
    let mut result = "HOLDS";
    let mut panic_msg = String::new();
    match r {
        Ok(()) => {
            if !failed.is_empty() {
                result = "VIOLATES";
            }
        }
        Err(e) => {
            if e.downcast_ref::<native::AssumeFailed>().is_some() {
                result = "NOT-APPLICABLE";
            } else {
                result = "VIOLATES";
                panic_msg = if let Some(s) = e.downcast_ref::<&str>() {
                    s.to_string()
                } else if let Some(s) = e.downcast_ref::<String>() {
                    s.clone()
                } else {
                    "panic".to_string()
                };
            }
        }
    }
    println!(
        "REPLAY harness={name} profile={profile} result={result} failed={failed:?} panic={panic_msg:?} covered={} draws_used={used} exhausted={exhausted}",
        covered.len()
    );
    std::process::exit(match result {
        "HOLDS" => 0,
        "VIOLATES" => 1,
        _ => 3,
    });
}
