//! Native replay of a solver model against the real ckc-rs build.
//!
//!   replay <harness-name> <v0> <v1> ...     values = the harness's draws, in draw order
//!   replay --list
//!   replay --selftest                       oracle self-validation used by setup
//!
//! Prints one line `REPLAY harness=<h> profile=<dev|release> result=<HOLDS|VIOLATES|NOT-APPLICABLE> ...`.
//! VIOLATES = a `check!` of the harness failed on the real code, or the real code panicked.
use ckc_verif::registry::HARNESSES;
use ckc_verif::sym::native;
use std::panic;

mod selftest;

thread_local! { static LOC: std::cell::RefCell<String> = std::cell::RefCell::new(String::new()); }

fn main() {
    let args: Vec<String> = std::env::args().skip(1).collect();
    let profile = if cfg!(debug_assertions) { "dev" } else { "release" };
    if args.is_empty() {
        eprintln!("usage: replay <harness> <values...> | --list | --selftest");
        std::process::exit(64);
    }
    if args[0] == "--list" {
        for (n, p, _) in HARNESSES {
            println!("{n} {p}");
        }
        return;
    }
    if args[0] == "--selftest" {
        std::process::exit(selftest::run());
    }
    let name = &args[0];
    let Some((_, _, f)) = HARNESSES.iter().find(|(n, _, _)| n == name) else {
        eprintln!("unknown harness {name}");
        std::process::exit(64);
    };
    let vals: Vec<u64> = args[1..].iter().map(|s| s.parse::<u128>().map(|v| v as u64).expect("value")).collect();
    native::load(vals);
    panic::set_hook(Box::new(|info| {
        if let Some(l) = info.location() {
            LOC.with(|c| *c.borrow_mut() = format!("{}:{}", l.file(), l.line()));
        }
    }));
    let r = panic::catch_unwind(|| f());
    let _ = panic::take_hook();
    let (failed, covered, exhausted, used, notes) = native::ST.with(|s| {
        let s = s.borrow();
        (s.failed.clone(), s.covered.clone(), s.exhausted, s.pos, s.notes.clone())
    });
    let mut result = "HOLDS";
    let mut panic_msg = String::new();
    match r {
        Ok(()) => {
            if !failed.is_empty() {
                result = "VIOLATES";
            }
        }
        Err(e) => {
            if e.downcast_ref::<native::AssumeFailed>().is_some() {
                // an assumption placed AFTER a failed check does not excuse it (assumptions are not retroactive)
                result = if failed.is_empty() { "NOT-APPLICABLE" } else { "VIOLATES" };
            } else {
                result = "VIOLATES";
                panic_msg = if let Some(s) = e.downcast_ref::<&str>() {
                    s.to_string()
                } else if let Some(s) = e.downcast_ref::<String>() {
                    s.clone()
                } else {
                    "panic".to_string()
                };
            }
        }
    }
    let loc = LOC.with(|c| c.borrow().clone());
    // a panic raised by the harness's own code (not by ckc-rs or core on its behalf) is a harness defect
    if result == "VIOLATES" && failed.is_empty() && loc.contains("/verif/harness/") {
        result = "HARNESS-PANIC";
    }
    println!(
        "REPLAY harness={name} profile={profile} result={result} failed={failed:?} panic={panic_msg:?} at={loc:?} covered={} draws_used={used} exhausted={exhausted} notes={notes:?}",
        covered.len()
    );
    std::process::exit(match result {
        "HOLDS" => 0,
        "VIOLATES" => 1,
        "HARNESS-PANIC" => 4,
        _ => 3,
    });
}
