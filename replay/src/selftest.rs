//! Oracle self-validation (not a deciding step): the S2 ordinal must agree with a naive pairwise
//! "beats" comparator written directly from the rules, and be onto 1..=7462.
use ckc_verif::spec::ord::{ord, sort5_desc, WITNESS};

/// naive rules-of-poker key: (category strength, tie-break ranks), larger = stronger
fn naive_key(r: [u8; 5], flush: bool) -> (u8, Vec<u8>) {
    let s = sort5_desc(r);
    let mut counts: Vec<(u8, u8)> = Vec::new(); // (count, rank)
    for &x in s.iter() {
        if let Some(c) = counts.iter_mut().find(|c| c.1 == x) {
            c.0 += 1;
        } else {
            counts.push((1, x));
        }
    }
    counts.sort_by(|a, b| b.cmp(a)); // by count desc then rank desc
    let pattern: Vec<u8> = counts.iter().map(|c| c.0).collect();
    let mut tb: Vec<u8> = counts.iter().map(|c| c.1).collect();
    let distinct = pattern.len() == 5;
    let straight = distinct && (s[0] - s[4] == 4);
    let wheel = s == [12, 3, 2, 1, 0];
    if wheel {
        tb = vec![3];
    } else if straight {
        tb = vec![s[0]];
    }
    let cat = if (straight || wheel) && flush {
        8
    } else if pattern == [4, 1] {
        7
    } else if pattern == [3, 2] {
        6
    } else if flush {
        5
    } else if straight || wheel {
        4
    } else if pattern == [3, 1, 1] {
        3
    } else if pattern == [2, 2, 1] {
        2
    } else if pattern == [2, 1, 1, 1] {
        1
    } else {
        0
    };
    (cat, tb)
}

pub fn run() -> i32 {
    // enumerate every shape
    let mut shapes: Vec<([u8; 5], bool)> = Vec::new();
    for a in 0..13u8 {
        for b in 0..=a {
            for c in 0..=b {
                for d in 0..=c {
                    for e in 0..=d {
                        if a == e {
                            continue;
                        }
                        shapes.push(([a, b, c, d, e], false));
                        if a > b && b > c && c > d && d > e {
                            shapes.push(([a, b, c, d, e], true));
                        }
                    }
                }
            }
        }
    }
    if shapes.len() != 7462 {
        println!("SELFTEST FAIL: {} shapes", shapes.len());
        return 1;
    }
    let mut keyed: Vec<((u8, Vec<u8>), u16)> = shapes.iter().map(|&(r, f)| (naive_key(r, f), ord(r, f))).collect();
    keyed.sort_by(|x, y| y.0.cmp(&x.0)); // strongest first
    for (i, (_, o)) in keyed.iter().enumerate() {
        if *o as usize != i + 1 {
            println!("SELFTEST FAIL: ordinal {} at naive position {}", o, i + 1);
            return 1;
        }
    }
    // keys are pairwise distinct (each shape is its own tie class)
    for w in keyed.windows(2) {
        if w[0].0 == w[1].0 {
            println!("SELFTEST FAIL: two shapes with one key");
            return 1;
        }
    }
    // witness table consistent with ord
    for k in 1..=7462usize {
        let w = WITNESS[k];
        if ckc_verif::spec::ord::ord_of_words(w) as usize != k {
            println!("SELFTEST FAIL: witness {}", k);
            return 1;
        }
        for i in 0..5 {
            if !ckc_verif::spec::cards::is_card(w[i]) {
                println!("SELFTEST FAIL: witness {} slot {}", k, i);
                return 1;
            }
            for j in 0..i {
                if w[i] == w[j] {
                    println!("SELFTEST FAIL: witness {} repeats a card", k);
                    return 1;
                }
            }
        }
    }
    // class positions: monotone in ord, and class_index(ord) == shape.class
    for &(r, f) in &shapes {
        let sh = ckc_verif::spec::ord::shape(r, f);
        if ckc_verif::spec::classes::class_index(sh.ord) != sh.class as usize
            || ckc_verif::spec::classes::cat_index(sh.ord) != sh.cat as usize
        {
            println!("SELFTEST FAIL: class/cat of {:?} {}", r, f);
            return 1;
        }
    }
    println!("SELFTEST OK: S2 ordinal is the order-isomorphism of the naive rules comparator onto 1..=7462; S3 witnesses and S4 positions consistent");
    0
}
