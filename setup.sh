#!/bin/bash
# Build the framework from files on disk only (offline).  Idempotent.
set -e
cd "$(dirname "$0")"
export CARGO_NET_OFFLINE=true
unset RUSTFLAGS RUSTUP_TOOLCHAIN
python3 tools/gen_classes.py > harness/src/spec/classes_gen.rs.tmp && mv harness/src/spec/classes_gen.rs.tmp harness/src/spec/classes_gen.rs
python3 tools/gen_consts.py > harness/src/spec/consts_gen.rs.tmp && mv harness/src/spec/consts_gen.rs.tmp harness/src/spec/consts_gen.rs
python3 tools/gen_registry.py
cp /repo/Cargo.lock harness/Cargo.lock 2>/dev/null || true
cp /repo/Cargo.lock replay/Cargo.lock 2>/dev/null || true
mkdir -p .build evidence out
# native replay binaries (dev + release) and oracle self-validation
cargo build --manifest-path replay/Cargo.toml --target-dir .build/replay
cargo build --manifest-path replay/Cargo.toml --target-dir .build/replay --release
.build/replay/release/ckc_replay --selftest
# warm the Kani build of the harness crate (dependencies + codegen of one small harness)
(cd harness && cargo kani --target-dir ../.build/kani0 -Z stubbing -Z unstable-options --only-codegen --exact --harness h::c07::c07_enum_order >/dev/null 2>&1) || true
echo "setup done"
