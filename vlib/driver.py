"""Check driver: cargo kani (CBMC + SAT) over the harness crate, native replay of any model."""
import argparse, fcntl, hashlib, json, os, re, resource, shutil, subprocess, sys, time

VERIF = os.path.dirname(os.path.dirname(os.path.abspath(__file__)))
REPO = os.environ.get("VERIF_REPO", "/repo")
HARNESS = os.path.join(VERIF, "harness")
REPLAY = os.path.join(VERIF, "replay")
BUILD = os.path.join(VERIF, ".build")
OUT = os.path.join(VERIF, "out")
EVID = os.path.join(VERIF, "evidence")
KNOWN = os.environ.get("VERIF_KNOWN_FINDINGS", os.path.join(VERIF, "known_findings.txt"))
NSLOTS = 4
MEM_CAP_GB = int(os.environ.get("VERIF_MEM_GB", "24"))

from table import TABLE, PROPERTY_META  # noqa: E402

try:
    GOALS = json.load(open(os.path.join(VERIF, "vlib", "goals.json")))
except Exception:
    GOALS = {}


def log(*a):
    print(*a, flush=True)


def env_offline():
    e = dict(os.environ)
    e["CARGO_NET_OFFLINE"] = "true"
    e.pop("RUSTFLAGS", None)
    e.pop("RUSTUP_TOOLCHAIN", None)
    return e


def sh(cmd, **kw):
    return subprocess.run(cmd, stdout=subprocess.PIPE, stderr=subprocess.STDOUT, text=True, **kw)


def repo_fingerprint():
    h = hashlib.sha256()
    rev = sh(["git", "-C", REPO, "rev-parse", "HEAD"]).stdout.strip()
    diff = sh(["git", "-C", REPO, "diff", "HEAD", "--", "src", "Cargo.toml"]).stdout
    h.update(diff.encode())
    return rev[:12], ("clean" if not diff else "dirty:" + h.hexdigest()[:12])


def prepare_sources():
    """Regenerate everything derived: Cargo.lock copies, class table, harness registry."""
    lock = os.path.join(REPO, "Cargo.lock")
    for d in (HARNESS, REPLAY):
        dst = os.path.join(d, "Cargo.lock")
        if os.path.exists(lock):
            try:
                if not os.path.exists(dst) or open(dst).read() != open(lock).read():
                    shutil.copyfile(lock, dst)
            except OSError:
                pass
    for tool, target in (("gen_classes.py", "classes_gen.rs"), ("gen_consts.py", "consts_gen.rs")):
        gen = sh([sys.executable, os.path.join(VERIF, "tools", tool)])
        if gen.returncode == 0:
            p = os.path.join(HARNESS, "src", "spec", target)
            if not os.path.exists(p) or open(p).read() != gen.stdout:
                open(p, "w").write(gen.stdout)
    r = sh([sys.executable, os.path.join(VERIF, "tools", "gen_registry.py"), "--list"])
    if r.returncode != 0:
        raise RuntimeError("gen_registry failed: " + r.stdout)
    return r.stdout.split()


class Slot:
    """One of NSLOTS kani target dirs, held under flock so concurrent checks never share one."""

    def __enter__(self):
        os.makedirs(BUILD, exist_ok=True)
        while True:
            for i in range(NSLOTS):
                path = os.path.join(BUILD, f"kani{i}")
                os.makedirs(path, exist_ok=True)
                f = open(os.path.join(path, ".lock"), "w")
                try:
                    fcntl.flock(f, fcntl.LOCK_EX | fcntl.LOCK_NB)
                    self.f, self.path = f, path
                    tmp = os.path.join(path, "tmp")
                    shutil.rmtree(tmp, ignore_errors=True)
                    os.makedirs(tmp, exist_ok=True)
                    return self
                except OSError:
                    f.close()
            time.sleep(1.0)

    def __exit__(self, *a):
        shutil.rmtree(os.path.join(self.path, "tmp"), ignore_errors=True)
        fcntl.flock(self.f, fcntl.LOCK_UN)
        self.f.close()


def limit_mem():
    cap = MEM_CAP_GB * (1 << 30)
    try:
        resource.setrlimit(resource.RLIMIT_AS, (cap, cap))
    except Exception:
        pass


def kani_cmd(slot, harnesses, jobs, timeout_s, playback=False, unwind=None):
    cmd = ["cargo", "kani", "--target-dir", slot.path, "-Z", "stubbing", "-Z", "unstable-options",
           "--no-assertion-reach-checks", "--output-format", "terse", "--exact",
           "--harness-timeout", f"{int(timeout_s)}s"]
    if playback:
        cmd += ["-Z", "concrete-playback", "--concrete-playback=print"]
    else:
        cmd += ["-j", str(max(2, jobs))]
    for h in harnesses:
        cmd += ["--harness", h]
    return cmd


RES_RE = re.compile(r"\*\* (\d+) of (\d+) failed")
COV_RE = re.compile(r"\*\* (\d+) of (\d+) cover properties satisfied")
TIME_RE = re.compile(r"Verification Time: ([0-9.]+)s")


def parse_kani(out, wanted):
    """Attribute result blocks to harnesses.  Returns name -> dict."""
    res = {}
    thread_h = {}
    cur = None  # harness whose block we are in
    seq_h = None
    lines = out.splitlines()
    i = 0
    while i < len(lines):
        ln = lines[i]
        m = re.match(r"(?:Thread (\d+): )?Checking harness ([\w:]+)\.\.\.", ln)
        if m:
            if m.group(1) is not None:
                thread_h[m.group(1)] = m.group(2)
            else:
                seq_h = m.group(2)
                cur = seq_h
                res.setdefault(cur, {"raw": []})
            i += 1
            continue
        m = re.match(r"Thread (\d+): ?$", ln)
        if m and m.group(1) in thread_h:
            cur = thread_h[m.group(1)]
            res.setdefault(cur, {"raw": []})
            i += 1
            continue
        if ln.startswith("Manual Harness Summary") or ln.startswith("Complete - "):
            cur = None
        if cur is not None:
            res[cur]["raw"].append(ln)
        i += 1
    for h, d in res.items():
        raw = "\n".join(d["raw"])
        d["status"] = "error"
        m = RES_RE.search(raw)
        if m:
            d["failed"], d["props"] = int(m.group(1)), int(m.group(2))
        c = COV_RE.search(raw)
        d["cov_sat"], d["cov_total"] = (int(c.group(1)), int(c.group(2))) if c else (0, 0)
        t = TIME_RE.search(raw)
        d["time_s"] = float(t.group(1)) if t else None
        d["failed_checks"] = re.findall(r"Failed Checks: (.*)", raw)
        d["undetermined"] = "UNDETERMINED" in raw or "undetermined" in raw
        if "timed out" in raw:
            d["status"] = "timeout"
        elif "VERIFICATION:- SUCCESSFUL" in raw and m and d["failed"] == 0 and not d["undetermined"]:
            d["status"] = "pass" if d["cov_sat"] == d["cov_total"] else "vacuous"
        elif "VERIFICATION:- FAILED" in raw and m and d.get("failed", 0) > 0:
            d["status"] = "fail"
        elif "VERIFICATION:- FAILED" in raw and m and d.get("failed", 0) == 0:
            # e.g. unwinding assertion / unsupported construct reported separately
            d["status"] = "fail" if d["failed_checks"] else "error"
        d["unwind_fail"] = any("unwinding assertion" in x for x in d["failed_checks"])
    return res


PLAY_RE = re.compile(r"/// Check for `([^`]*)`: \"(.*)\"\s*\n(?:.*\n)*?\s*let concrete_vals: Vec<Vec<u8>> = vec!\[\n((?:.*\n)*?)\s*\];", re.M)


def parse_playback(out):
    models = []
    for m in PLAY_RE.finditer(out):
        kind, desc, body = m.group(1), m.group(2), m.group(3)
        vals = []
        for v in re.findall(r"vec!\[([0-9, ]*)\]", body):
            bs = [int(x) for x in v.replace(" ", "").split(",") if x != ""]
            n = 0
            for k, b in enumerate(bs[:8]):
                n |= b << (8 * k)
            vals.append(n)
        models.append({"kind": kind, "desc": desc, "values": vals})
    return models


def build_replay(profile):
    cmd = ["cargo", "build", "--manifest-path", os.path.join(REPLAY, "Cargo.toml"),
           "--target-dir", os.path.join(BUILD, "replay")]
    if profile == "release":
        cmd.append("--release")
    r = sh(cmd, env=env_offline())
    if r.returncode != 0:
        raise RuntimeError("native replay build failed:\n" + r.stdout[-3000:])
    return os.path.join(BUILD, "replay", "debug" if profile == "dev" else "release", "ckc_replay")


def native_replay(harness_short, values):
    """Run the model against the real code in dev and release.  Returns list of per-profile dicts."""
    outs = []
    for prof in ("dev", "release"):
        exe = build_replay(prof)
        try:
            r = sh([exe, harness_short] + [str(v) for v in values], timeout=600)
            line = [l for l in r.stdout.splitlines() if l.startswith("REPLAY ")]
            outs.append({"profile": prof, "exit": r.returncode, "line": line[-1] if line else r.stdout[-500:],
                         "violates": r.returncode == 1, "signal": r.returncode < 0})
        except subprocess.TimeoutExpired:
            outs.append({"profile": prof, "exit": None, "line": "native replay did not return within 600 s (hang)",
                         "violates": True, "signal": False})
    return outs


def load_known():
    findings, fixed = [], []
    if os.path.exists(KNOWN):
        for ln in open(KNOWN):
            ln = ln.strip()
            if ln.startswith("finding:"):
                d = dict(re.findall(r'(\w+)=("[^"]*"|\S+)', ln))
                findings.append({k: v.strip('"') for k, v in d.items()} | {"text": ln})
            elif ln.startswith("fixed:"):
                fixed.append(ln)
    return findings, fixed


def match_known(findings, pid, harness_short, desc):
    for f in findings:
        if f.get("property") == pid and f.get("harness") == harness_short and f.get("check") == desc:
            return f
    return None


def select(pid, tier, seed, only):
    ents = TABLE[pid]
    sel = []
    for e in ents:
        t = e.get("tier", "quick")
        if only:
            if e["name"] in only:
                sel.append(e)
            continue
        if t == "quick" or (t == "thorough" and tier == "thorough"):
            sel.append(e)
        elif t.startswith("seeded:"):
            # one member of a partition family per quick run, chosen by VERIF_SEED; all in thorough
            fam, idx, n = t.split(":")[1:4]
            if tier == "thorough" or (seed % int(n)) == int(idx):
                sel.append(e)
    return sel


def run_property(pid, tier, seed, only, jobs):
    t0 = time.time()
    names = prepare_sources()
    ents = select(pid, tier, seed, only)
    if not ents:
        log(f"no harness selected for {pid}")
        return 2
    full = {}
    for e in ents:
        cand = [n for n in names if n.split("::")[-1] == e["name"]]
        if not cand:
            log(f"INCONCLUSIVE: harness {e['name']} not found in harness crate")
            return 2
        full[e["name"]] = cand[0]
    meta = PROPERTY_META[pid]
    rev, dirty = repo_fingerprint()
    log(f"[{pid}] tier={tier} seed={seed} repo={rev} ({dirty}) harnesses={len(ents)}")
    results, playback_models, violations, known_hits, inconclusive = {}, {}, [], [], []
    tmo = max(e.get("timeout", 900) for e in ents) * (2 if tier == "thorough" else 1)
    with Slot() as slot:
        env = env_offline()
        env["TMPDIR"] = os.path.join(slot.path, "tmp")
        cmd = kani_cmd(slot, [full[e["name"]] for e in ents], min(jobs, len(ents)), tmo)
        t1 = time.time()
        r = subprocess.run(cmd, cwd=HARNESS, env=env, stdout=subprocess.PIPE, stderr=subprocess.STDOUT,
                           text=True, preexec_fn=limit_mem)
        kani_wall = time.time() - t1
        os.makedirs(os.path.join(OUT, pid), exist_ok=True)
        open(os.path.join(OUT, pid, f"kani_{tier}.log"), "w").write(r.stdout)
        parsed = parse_kani(r.stdout, full)
        if "error: could not compile" in r.stdout or "error[E" in r.stdout:
            log(r.stdout[-4000:])
            log(f"INCONCLUSIVE property={pid}: harness crate does not compile against the current /repo tree")
            write_evidence(pid, tier, seed, ents, {}, t0, 0, meta, rev, dirty, note="build error")
            return 2
        for e in ents:
            d = parsed.get(full[e["name"]])
            if d is None:
                d = {"status": "error", "raw": ["no result block in kani output"]}
            results[e["name"]] = d
        # thorough tier: harnesses marked cross_solver are decided a second time with another SAT back end
        # (cadical instead of kissat or vice versa); the two verdicts must agree, otherwise the run is inconclusive
        if tier == "thorough":
            for e in ents:
                if not e.get("cross_solver") or results[e["name"]]["status"] not in ("pass", "fail"):
                    continue
                alt = "cadical" if e.get("solver") == "kissat" else "kissat"
                cc = kani_cmd(slot, [full[e["name"]]], 1, tmo) + ["--solver", alt]
                cr = subprocess.run(cc, cwd=HARNESS, env=env, stdout=subprocess.PIPE, stderr=subprocess.STDOUT,
                                    text=True, preexec_fn=limit_mem)
                open(os.path.join(OUT, pid, f"cross_{e['name']}.log"), "w").write(cr.stdout)
                d2 = parse_kani(cr.stdout, full).get(full[e["name"]]) or {"status": "error"}
                d = results[e["name"]]
                d["cross_solver"] = {"solver": alt, "status": d2.get("status"), "verification_time_s": d2.get("time_s")}
                if d2.get("status") != d["status"]:
                    d["status"] = "solver-disagreement"
        # an unwinding assertion failed: the code under test has a loop that needs more iterations than the harness
        # bound (typical for a change that replaces straight-line code by a table-driven loop).  Retry that harness
        # once with a much larger bound before giving up; the unwinding assertion stays on.
        for e in ents:
            d = results[e["name"]]
            if d["status"] == "fail" and d.get("unwind_fail") and len(d["failed_checks"]) == 1:
                big = max(64, 2 * int(e.get("unwind", 0)))
                rc = kani_cmd(slot, [full[e["name"]]], 1, tmo) + ["--unwind", str(big)]
                rr = subprocess.run(rc, cwd=HARNESS, env=env, stdout=subprocess.PIPE, stderr=subprocess.STDOUT,
                                    text=True, preexec_fn=limit_mem)
                open(os.path.join(OUT, pid, f"retry_unwind_{e['name']}.log"), "w").write(rr.stdout)
                d2 = parse_kani(rr.stdout, full).get(full[e["name"]])
                if d2 is not None and d2["status"] in ("pass", "fail", "vacuous"):
                    d2["unwind_retry"] = big
                    results[e["name"]] = d2
        # models for failing harnesses: cheapest first; each model is replayed natively straight away.  Once a
        # violation has been reproduced the remaining failing harnesses are not re-run for their models
        # (set VERIF_ALL_MODELS=1 to extract every model) - the verdict is already exit 1.
        findings, _fixed = load_known()
        all_models = os.environ.get("VERIF_ALL_MODELS") == "1"
        failing = sorted([e for e in ents if results[e["name"]]["status"] == "fail"],
                         key=lambda e: results[e["name"]].get("time_s") or 1e9)
        for e in failing:
            d = results[e["name"]]
            if d.get("unwind_fail") and len(d["failed_checks"]) == 1:
                d["status"] = "unwind"
                continue
            if violations and not all_models:
                d["model_skipped"] = True
                continue
            pc = kani_cmd(slot, [full[e["name"]]], 1, tmo * 2, playback=True)
            if d.get("unwind_retry"):
                pc += ["--unwind", str(d["unwind_retry"])]
            pr = subprocess.run(pc, cwd=HARNESS, env=env, stdout=subprocess.PIPE, stderr=subprocess.STDOUT,
                                text=True, preexec_fn=limit_mem)
            open(os.path.join(OUT, pid, f"playback_{e['name']}.log"), "w").write(pr.stdout)
            ms = [m for m in parse_playback(pr.stdout) if m["kind"] != "cover"]
            playback_models[e["name"]] = ms
            reproduced = False
            for m in ms:
                nat = native_replay(e["name"], m["values"])
                m["native"] = nat
                if any(n["violates"] for n in nat):
                    reproduced = True
                    case = {"property": pid, "harness": e["name"], "kani_harness": full[e["name"]],
                            "failed_check": m["desc"], "check_kind": m["kind"], "values": m["values"],
                            "draw_order": e.get("draws", ""), "native": nat, "repo": rev, "repo_state": dirty}
                    path = os.path.join(OUT, pid, f"{e['name']}.{len(violations) + len(known_hits)}.case.json")
                    json.dump(case, open(path, "w"), indent=1)
                    k = match_known(findings, pid, e["name"], m["desc"])
                    if k:
                        known_hits.append((k, path))
                    else:
                        violations.append((e["name"], m["desc"], path, nat))
            if not reproduced:
                inconclusive.append((e["name"], "model-not-reproduced",
                                     "solver reported failed checks %r but no model reproduced natively (models: %d)\n%s"
                                     % (d.get("failed_checks"), len(ms),
                                        "\n".join("    " + n["line"] for m in ms for n in m.get("native", [])))))
    for e in ents:
        d = results[e["name"]]
        if d["status"] not in ("pass", "fail"):
            # The solver did not conclude (timeout / out of memory / error).  For the abstracted six/seven-card
            # harnesses a native concretisation family exists (c02::concrete): evaluate it on the real build.  A hand
            # that violates the clause there is a real violation and is reported as such (flagged as found natively
            # after an inconclusive solver run); if the family holds the harness stays inconclusive.
            fb = e.get("fallback")
            if fb and not violations:
                nat = native_replay(e["name"], fb)
                if any(n["violates"] for n in nat):
                    case = {"property": pid, "harness": e["name"], "kani_harness": full[e["name"]],
                            "failed_check": "native concretisation family (solver run was inconclusive: %s)" % d["status"],
                            "check_kind": "native-family", "values": fb, "draw_order": e.get("draws", ""), "native": nat,
                            "repo": rev, "repo_state": dirty}
                    path = os.path.join(OUT, pid, f"{e['name']}.{len(violations) + len(known_hits)}.case.json")
                    json.dump(case, open(path, "w"), indent=1)
                    d["decided_by"] = "native family after inconclusive solver run"
                    violations.append((e["name"], case["failed_check"], path, nat))
                    continue
            inconclusive.append((e["name"], d["status"], "\n".join(d.get("raw", [])[-12:])))
    write_evidence(pid, tier, seed, ents, results, t0, len(violations), meta, rev, dirty,
                   kani_wall=kani_wall, models=playback_models)
    for e in ents:
        d = results[e["name"]]
        if d.get("model_skipped"):
            d["status"] = "fail*"
        log(f"  {e['name']:36s} {d['status']:8s} props={d.get('props','-')} failed={d.get('failed','-')} "
            f"covers={d.get('cov_sat','-')}/{d.get('cov_total','-')} t={d.get('time_s')}")
    for k, path in known_hits:
        log(f"KNOWN-FINDING: property={pid} {k['text']} replay={path}")
    for (h, desc, path, nat) in violations:
        log(f"  violated in {h}: {desc}")
        for n in nat:
            log(f"    {n['line']}")
        log(f"VIOLATION property={pid} replay={path}")
    if any(results[e["name"]].get("model_skipped") for e in ents):
        log("  (fail* = the solver refuted an assertion there too; its model was not extracted because a violation was already reproduced)")
    if violations:
        return 1
    if inconclusive:
        for h, st, txt in inconclusive:
            log(f"INCONCLUSIVE property={pid} harness={h} reason={st}\n{txt}")
        return 2
    log(f"[{pid}] OK: {len(ents)} harnesses discharged in {time.time() - t0:.0f}s")
    return 0


def write_evidence(pid, tier, seed, ents, results, t0, nviol, meta, rev, dirty, kani_wall=0.0, models=None, note=None):
    os.makedirs(EVID, exist_ok=True)
    samples, obligations, discharged, covers, solver_s, nrun = [], 0, 0, 0, 0.0, 0
    for e in ents:
        d = results.get(e["name"], {})
        if d:
            nrun += 1
        props = d.get("props", 0) or 0
        failed = d.get("failed", 0) or 0
        obligations += props
        if d.get("status") in ("pass", "fail", "fail*", "vacuous"):
            discharged += props - failed
        covers += d.get("cov_sat", 0) or 0
        solver_s += d.get("time_s") or 0.0
        s = {"harness": e["name"], "result": d.get("status", "not-run"), "input_domain": e.get("domain", ""),
             "functions_encoded": e.get("functions", []), "bound": e.get("bound", ""),
             "stubs_and_assumptions": e.get("assume", []), "cbmc_properties": props, "cbmc_failed": failed,
             "vacuity_witnesses_satisfied": f"{d.get('cov_sat', 0)}/{d.get('cov_total', 0)}",
             "solver": e.get("solver", "cadical"), "verification_time_s": d.get("time_s"), "draw_order": e.get("draws", "")}
        if d.get("decided_by"):
            s["decided_by"] = d["decided_by"]
        if d.get("cross_solver"):
            s["second_solver"] = d["cross_solver"]
        g = GOALS.get(e["name"], {})
        s["assertions"] = g.get("checks", [])
        if d.get("status") == "pass":
            s["scenarios_shown_reachable"] = g.get("covers", [])
        if models and e["name"] in models:
            s["models"] = [{"failed_check": m["desc"], "values": m["values"],
                            "native": [n["line"] for n in m.get("native", [])]} for m in models[e["name"]]]
        samples.append(s)
    ev = {
        "property_id": pid, "tier": tier, "seed": seed, "level": "model_checking",
        "coverage": {
            "evaluations": nrun,
            "distinct_nontrivial": covers,
            "rule": "one evaluation = one proof harness decided by CBMC+SAT over the compiled real code with all inputs "
                    "symbolic (kani::any) inside the stated domain; distinct_nontrivial counts the vacuity witnesses "
                    "(kani::cover goals, each a different named scenario inside the domain) that the solver showed "
                    "reachable in this run; obligations/discharged count CBMC properties (assertions of the harness, "
                    "rustc overflow/bounds/unwrap panics, pointer checks, unwinding assertions) checked / proved",
            "samples": samples,
            "obligations": obligations, "discharged": discharged,
            "checker_cmd": "cargo kani -Z stubbing --no-assertion-reach-checks --exact --harness <h> (Kani 0.68.0, CBMC 6.11.0)",
            "trusted_base": ["rustc MIR -> Kani codegen", "CBMC 6.11 symbolic execution and bit-blasting",
                             "SAT back end (cadical / kissat)", "Kani models of core intrinsics",
                             "core library of Kani's toolchain (sort_unstable, str::chars)"],
            "exhaustive": False,
            "explanation": meta.get("claim", ""),
            "outside_the_bound": meta.get("outside", ""),
            "solver_time_s": round(solver_s, 2), "kani_wall_s": round(kani_wall, 2),
            "repo_rev": rev, "repo_state": dirty,
        },
        "assumptions": meta.get("assumptions", []),
        "wall_s": round(time.time() - t0, 2),
        "violations": nviol,
    }
    if note:
        ev["coverage"]["note"] = note
    json.dump(ev, open(os.path.join(EVID, f"{pid}.json"), "w"), indent=1)


def do_replay(pid, path):
    case = json.load(open(path))
    prepare_sources()
    nat = native_replay(case["harness"], case["values"])
    for n in nat:
        log(n["line"])
    if any(n["violates"] for n in nat):
        findings, _ = load_known()
        k = match_known(findings, case["property"], case["harness"], case["failed_check"])
        if k:
            log(f"KNOWN-FINDING: property={case['property']} {k['text']} replay={path}")
            return 0
        log(f"VIOLATION property={case['property']} replay={path}")
        return 1
    log("replay: property holds on this input with the current /repo tree")
    return 0


def main(argv):
    ap = argparse.ArgumentParser()
    ap.add_argument("pid")
    ap.add_argument("--tier", default=os.environ.get("VERIF_TIER", "quick"))
    ap.add_argument("--replay")
    ap.add_argument("--only", action="append", default=[])
    ap.add_argument("--jobs", type=int, default=int(os.environ.get("VERIF_JOBS", "14")))
    a = ap.parse_args(argv)
    pid = a.pid.upper()
    if pid not in TABLE:
        log(f"unknown property {pid}")
        return 2
    if a.replay:
        return do_replay(pid, a.replay)
    try:
        seed = int(os.environ.get("VERIF_SEED", "0"))
    except ValueError:
        seed = 0
    tier = a.tier if a.tier in ("quick", "thorough") else "quick"
    try:
        return run_property(pid, tier, seed, a.only, a.jobs)
    except RuntimeError as ex:
        log(f"INCONCLUSIVE property={pid}: {ex}")
        return 2
