"""Harness table: which proof harnesses decide which property, in which tier, and what each one
encodes.  The text here is copied into the evidence file of every run."""

def H(name, tier="quick", functions=(), domain="", bound="", assume=(), solver="cadical", timeout=900, draws=""):
    return {"name": name, "tier": tier, "functions": list(functions), "domain": domain, "bound": bound,
            "assume": list(assume), "solver": solver, "timeout": timeout, "draws": draws}

TABLE = {}
PROPERTY_META = {}

COMMON_ASSUME = [
    "Kani models the dev profile with overflow checks on; every rustc overflow/bounds assertion is a CBMC property, "
    "so a pass means no arithmetic wraps and the release build computes the same values",
    "core library as shipped with Kani's toolchain (nightly-2026-08-21), not the repository's stable 1.95",
]

# ---------------------------------------------------------------- C06
TABLE["C06"] = [
    H("c06_value_to_class", functions=["HandRank::determine_name", "HandRank::determine_class", "HandRank::from",
                                      "HandRank::is_a_valid_hand_rank", "HandRank::is_invalid", "HandRank::default"],
      domain="v: every u16 (65,536 values)", bound="loop-free; whole input type",
      assume=["S4 class table synthesised from the naming rule; positions by arithmetic on category sizes"], draws="v:u16"),
    H("c06_class_nonempty", functions=["HandRank::determine_class"], domain="j: every class position 0..=308",
      bound="whole domain", draws="j:u16"),
    H("c06_class_contiguous", functions=["HandRank::determine_class", "HandRank::determine_name"],
      domain="v <= u <= w: every triple of u16", bound="whole input type", draws="v,u,w:u16"),
    H("c06_cards_link", functions=["HandRank::determine_name", "HandRank::determine_class"],
      domain="every five-card shape: ranks in 0..=12 in any order (not five of a kind), flush flag only with distinct ranks",
      bound="whole domain", assume=["S2 ordinal and S4 class-of-cards rule (spec); C01 ties the real value to S2"],
      draws="r0..r4:u8, flush:bool"),
]
PROPERTY_META["C06"] = {
    "claim": "for every u16 the category/class are those of the poker class with that ordinal (Invalid iff 0 or >7462); "
             "every class is a non-empty contiguous range; the class text matches the cards for every five-card shape; "
             "hand_rank()/hand_rank_validated() of Five/Six/Seven are From(value) (wiring harness)",
    "outside": "nothing inside u16; the link from real cards to the value is C01's claim",
    "assumptions": COMMON_ASSUME,
}

# ---------------------------------------------------------------- C07
TABLE["C07"] = [
    H("c07_pair_laws", functions=["<HandRank as Ord>::cmp", "PartialOrd::{partial_cmp,lt,le,gt,ge}", "derived PartialEq",
                                 "HandRank::from"],
      domain="a, b: every ordered pair of u16", bound="loop-free; whole input type", draws="a,b:u16"),
    H("c07_transitive", functions=["<HandRank as Ord>::cmp", "HandRank::from"], domain="a, b, c: every triple of u16",
      bound="whole input type", draws="a,b,c:u16"),
    H("c07_enum_order", functions=["derived Ord on HandRankName / HandRankClass", "HandRank::determine_name",
                                  "HandRank::determine_class"],
      domain="v <= w: every pair of values in 1..=7462", bound="whole domain", draws="v,w:u16"),
]
PROPERTY_META["C07"] = {
    "claim": "reflexive, antisymmetric, transitive (all triples directly), consistent with ==, four operators agree, "
             "valid lower value greater, invalid below valid; enum declaration order in step with value",
    "outside": "nothing inside u16 x u16 (x u16)",
    "assumptions": COMMON_ASSUME,
}
