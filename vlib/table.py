"""Harness table: which proof harnesses decide which property, in which tier, and what each one
encodes.  The text here is copied into the evidence file of every run."""

def H(name, tier="quick", functions=(), domain="", bound="", assume=(), solver="cadical", timeout=900, draws="", fallback=None, unwind=0, cross_solver=False):
    d = {"cross_solver": cross_solver, "unwind": unwind, "name": name, "tier": tier, "functions": list(functions), "domain": domain, "bound": bound,
         "assume": list(assume), "solver": solver, "timeout": timeout, "draws": draws}
    if fallback:
        d["fallback"] = fallback
    return d

# canonical draws (A K Q J T of spades, 2c, 3d; table placeholder; k = 1) used to start the native concretisation
# family of an S5 harness when the solver run was inconclusive
FB = [12, 3, 11, 3, 10, 3, 9, 3, 8, 3, 0, 0, 1, 1, 0, 1]

TABLE = {}
PROPERTY_META = {}
WORDS = "arbitrary 32-bit words in every slot"
CARDBLANK = "{52 cards, blank} in every slot, any repetition, any order"
EVAL = ["Five::hand_rank_value_and_hand", "or_rank_bits", "is_flush", "Five::unique", "Five::not_unique", "multiply_primes",
        "Five::find_in_products", "lookups::{FLUSHES,UNIQUE_5,PRODUCTS,VALUES}"]

COMMON_ASSUME = [
    "Kani models the dev profile with overflow checks on; every rustc overflow/bounds assertion is a CBMC property, "
    "so a pass means no arithmetic wraps and the release build computes the same values",
    "core library as shipped with Kani's toolchain (nightly-2026-08-21), not the repository's stable 1.95",
]

# ---------------------------------------------------------------- C06
TABLE["C06"] = [
    H("c06_value_to_class", functions=["HandRank::determine_name", "HandRank::determine_class", "HandRank::from",
                                      "HandRank::is_a_valid_hand_rank", "HandRank::is_invalid", "HandRank::default"],
      domain="v: every u16 (65,536 values)", bound="loop-free; whole input type",
      assume=["S4 class table synthesised from the naming rule; positions by arithmetic on category sizes"], draws="v:u16"),
    H("c06_class_nonempty", functions=["HandRank::determine_class"], domain="j: every class position 0..=308",
      bound="whole domain", draws="j:u16"),
    H("c06_class_contiguous", functions=["HandRank::determine_class", "HandRank::determine_name"],
      domain="v <= u <= w: every triple of u16", bound="whole input type", draws="v,u,w:u16"),
    H("c06_cards_link", functions=["HandRank::determine_name", "HandRank::determine_class"],
      domain="every five-card shape: ranks in 0..=12 in any order (not five of a kind), flush flag only with distinct ranks",
      bound="whole domain", assume=["S2 ordinal and S4 class-of-cards rule (spec); C01 ties the real value to S2"],
      draws="r0..r4:u8, flush:bool"),
]
PROPERTY_META["C06"] = {
    "claim": "for every u16 the category/class are those of the poker class with that ordinal (Invalid iff 0 or >7462); "
             "every class is a non-empty contiguous range; the class text matches the cards for every five-card shape; "
             "hand_rank()/hand_rank_validated() of Five/Six/Seven are From(value) (wiring harness)",
    "outside": "nothing inside u16; the link from real cards to the value is C01's claim",
    "assumptions": COMMON_ASSUME,
}

# ---------------------------------------------------------------- C07
TABLE["C07"] = [
    H("c07_pair_laws", cross_solver=True, functions=["<HandRank as Ord>::cmp", "PartialOrd::{partial_cmp,lt,le,gt,ge}", "derived PartialEq",
                                 "HandRank::from"],
      domain="a, b: every ordered pair of u16", bound="loop-free; whole input type", draws="a,b:u16"),
    H("c07_transitive", functions=["<HandRank as Ord>::cmp", "HandRank::from"], domain="a, b, c: every triple of u16",
      bound="whole input type", draws="a,b,c:u16"),
    H("c07_enum_order", functions=["derived Ord on HandRankName / HandRankClass", "HandRank::determine_name",
                                  "HandRank::determine_class"],
      domain="v <= w: every pair of values in 1..=7462", bound="whole domain", draws="v,w:u16"),
]
PROPERTY_META["C07"] = {
    "claim": "reflexive, antisymmetric, transitive (all triples directly), consistent with ==, four operators agree, "
             "valid lower value greater, invalid below valid; enum declaration order in step with value",
    "outside": "nothing inside u16 x u16 (x u16)",
    "assumptions": COMMON_ASSUME,
}

# ---------------------------------------------------------------- C10
TABLE["C10"] = [
    H("c10_create", functions=["PokerCard::create", "CardRank::{bits,number,prime,shift8}", "CardSuit::binary_signature", "PokerCard::filter"],
      domain="all 14 x 5 (CardRank, CardSuit) pairs incl. the blank members", bound="whole domain", draws="r:u8, s:u8, r0:u8, s0:u8 (priming call)"),
    H("c10_constants_and_deck", functions=["CardNumber::* (52 constants)", "deck::POKER_DECK", "Deck::arr"],
      domain="all 52 (rank, suit); all 52 deck indexes", bound="whole domain", draws="r:u8, s:u8, i:u8"),
    H("c10_accessors", functions=["get_card_rank", "get_card_suit", "get_rank_bit", "get_rank_flag", "get_rank_prime", "get_suit_bit",
                                 "get_suit_flag", "get_rank_char", "get_suit_char", "get_suit_letter", "is_blank", "as_u32",
                                 "CardSuit::binary_signature"],
      domain="all 52 cards, plus blank", bound="whole domain", draws="r:u8, s:u8"),
    H("c10_filter", functions=["CardNumber::filter", "PokerCard::filter"], domain="every u32 word (2^32), after a priming call on another arbitrary word", bound="whole input type", draws="w0:u32, w:u32"),
]
PROPERTY_META["C10"] = {
    "claim": "constants, construction and deck equal the layout formula S1; accessors read the S1 fields; the filter passes exactly the 52 S1 words out of 2^32",
    "outside": "nothing: every quantifier of the statement is covered symbolically",
    "assumptions": COMMON_ASSUME + ["constant names are synthesised from rank/suit words (tools/gen_consts.py); rustc resolves them"],
}

# ---------------------------------------------------------------- C14
TABLE["C14"] = [
    H("c14_word_to_bit", functions=["BC64::from_ckc", "PokerCard::from_binary_card"], domain="every u32 word, after a priming call on another arbitrary word (history of length 2)", bound="whole input type", draws="w0:u32, w:u32"),
    H("c14_bit_to_word", functions=["PokerCard::from_binary_card", "BC64::from_ckc"], domain="every u64 value (2^64), after a priming call on another arbitrary value", bound="whole input type", draws="b0:u64, b:u64"),
    H("c14_constants", functions=["BC64::DECK", "52 BC64 card constants", "BC64::{ALL,OVERFLOW,BLANK}", "POKER_DECK"],
      domain="all 52 cards; all 52 deck indexes", bound="whole domain", draws="r:u8, s:u8, i:u8"),
]
PROPERTY_META["C14"] = {
    "claim": "word->bit is S1's deck-order bit for the 52 cards and empty otherwise (all u32); bit->word is the deck card for exactly the 52 single card bits and blank otherwise (all u64); both round trips",
    "outside": "nothing",
    "assumptions": COMMON_ASSUME,
}

# ---------------------------------------------------------------- C20
TABLE["C20"] = [
    H("c20_flags", functions=["flag_as_pair", "flag_as_trips", "flag_as_quads", "strip_multiples_flags", "all field accessors"],
      domain="52 cards x 8 mark subsets x 52 unmarked cards", bound="whole domain", draws="r,s:u8, m:u8, r2,s2:u8"),
    H("c20_any_word", functions=["flag_as_*", "strip_multiples_flags", "get_rank_prime", "get_rank_flag", "get_suit_flag"],
      domain="every word with bits 29-31 clear x 8 mark subsets", bound="whole domain", draws="w:u32, m:u8"),
]
PROPERTY_META["C20"] = {
    "claim": "marks touch only bits 29-31, accessors unchanged, idempotent, strip restores, marked > unmarked, quads > trips > pair",
    "outside": "nothing",
    "assumptions": COMMON_ASSUME,
}


# ---------------------------------------------------------------- C08
TABLE["C08"] = [
    H("c08_card_shift", functions=["<u32 as Shifty>::shift_suit", "PokerCard::next_suit", "get_card_rank", "get_card_suit", "create"],
      domain="all 52 cards and blank", bound="whole domain", draws="r,s:u8"),
] + [
    H(f"c08_shift_{n}", functions=[f"<{n.capitalize()} as Shifty>::shift_suit"], domain=WORDS, bound="whole input type; unwind 9 (checker loop)",
      draws="slots:u32*N") for n in ("two", "three", "four", "five", "six", "seven")
] + [
    H("c08_value_relabel_distinct_ranks", tier="thorough", solver="kissat", timeout=2400,
      functions=["Five::hand_rank_value (real evaluator: or_rank_bits, is_flush, FLUSHES, UNIQUE_5)", "<Five as Shifty>::shift_suit"],
      domain="five distinct cards with five distinct ranks, any slot order x all 24 suit bijections", bound="whole domain; unwind 14",
      draws="(r,s)*5, p0..p3:u8"),
    H("c08_value_shift_paired_sorted", tier="thorough", solver="kissat", timeout=2400,
      functions=["Five::hand_rank_value (real evaluator incl. multiply_primes, find_in_products, PRODUCTS, VALUES)", "<Five as Shifty>::shift_suit"],
      domain="five distinct cards with a repeated rank, slots in descending card order", bound="whole domain; unwind 14 (13-step binary search + 1)",
      draws="(r,s)*5"),
]
PROPERTY_META["C08"] = {
    "claim": "card shift is the 4-cycle S->H->D->C->S keeping rank, blank fixed; containers shift every slot (arbitrary words); "
             "value invariance: real evaluator under all 24 relabellings on the table path and under shift on the product path (thorough); "
             "six/seven under the S5 abstraction",
    "outside": "value invariance of paired hands in unsorted slot order is covered only through C01 (value = ordinal of ranks+flush, which is suit-blind by construction)",
    "assumptions": COMMON_ASSUME,
}

# ---------------------------------------------------------------- C11
TABLE["C11"] = [
    H("c11_card_order", functions=["integer comparison of card words"], domain="all 52 x 52 card pairs", bound="whole domain", draws="(r,s)*2"),
] + [
    H(f"c11_sort_{n}", functions=[f"<{n.capitalize()} as HandValidator>::sort", "sort_in_place", "core::slice::sort_unstable", "reverse"],
      domain=WORDS, bound="whole input type; unwind 9 covers insertion sort on <= 7 elements", draws="slots:u32*N",
      timeout=1200) for n in ("two", "three", "four", "five", "six", "seven")
]
PROPERTY_META["C11"] = {
    "claim": "word order = (rank, suit) lexicographic with S>H>D>C, blank lowest; sort() equals a reference compare-exchange network slot by slot "
             "for arbitrary words (so same multiset, non-increasing), idempotent, in-place form agrees",
    "outside": "nothing",
    "assumptions": COMMON_ASSUME,
}

# ---------------------------------------------------------------- C15
TABLE["C15"] = [
    H("c15_from_hands", functions=["BC64::from_two..from_seven", "BC64::from_ckc"], domain=WORDS + " (7 words, prefixes used for sizes 2..6)",
      bound="whole input type", draws="slots:u32*7"),
    H("c15_set_ops", functions=["fold_in", "has", "number_of_cards", "is_single_card", "BC64::is_valid", "as_u64"], domain="all pairs of u64",
      bound="whole input type", draws="b,c:u64"),
    H("c15_peel_step", functions=["<u64 as BC64>::peel"], domain="every u64 set (one step from an arbitrary state = every history)",
      bound="unwind 53 covers the 52-entry deck scan", draws="b0:u64 (priming), b:u64"),
    H("c15_peel_sequence", functions=["<u64 as BC64>::peel"], domain="every two-card set, four peels", bound="unwind 53", draws="b:u64"),
    H("c15_from_index_long", timeout=1800, functions=["<u64 as BC64>::from_index", "BC64::from_ckc", "fold_in"],
      domain="token streams of 0..=64 tokens, every token over {52 cards, blank}, repeats allowed", bound="at most 64 tokens; unwind 67",
      assume=["S6-long: <SplitWhitespace as Iterator>::next stubbed by a counter that hands out n tokens; <u32 as PokerCard>::from_index stubbed by 'token k -> symbolic word LV[k]' "
              "(the real token parser's range {52 cards, blank} is decided on raw bytes by c12_token); natively nothing is stubbed"],
      draws="n:u8, (r,s)*64"),
]
PROPERTY_META["C15"] = {
    "claim": "constructors = OR of S1 bits of the real cards among the slots; union/subset/count/validity identities for all u64; peel is exact for every state",
    "outside": "from_index over raw text is decided under the token-stream abstraction (short streams with the hand parsers: C12 harness c12_hand_parsers; streams of up to 64 tokens: c15_from_index_long); texts of more than 64 tokens",
    "assumptions": COMMON_ASSUME,
}

# ---------------------------------------------------------------- C16
TABLE["C16"] = [
    H("c16_two_from_bits", functions=["<Two as TryFrom<u64>>::try_from", "BC64::peel", "PokerCard::from_binary_card", "Two::is_valid", "BC64::from_two"],
      domain="every u64", bound="unwind 53", draws="b:u64"),
]
PROPERTY_META["C16"] = {
    "claim": "Ok exactly for two card bits, cards in deck order, round trip; the three error kinds by population count / overflow bits",
    "outside": "nothing", "assumptions": COMMON_ASSUME,
}

# ---------------------------------------------------------------- C17
TABLE["C17"] = [
    H("c17_chen", cross_solver=True, functions=["Two::chen_formula (f32 arithmetic, max, ceil, cast)", "get_gap", "high_card", "is_connector", "is_pocket_pair",
                            "is_suited", "is_suited_connector", "<Two as Shifty>::shift_suit", "Two::sort"],
      domain="all 52 x 51 ordered pairs of distinct cards", bound="whole domain; unwind 4 (sort of 2)", draws="(r,s)*2"),
    H("c17_points", functions=["PokerCard::get_chen_points"], domain="all 52 cards and blank", bound="whole domain", draws="r,s:u8"),
]
PROPERTY_META["C17"] = {
    "claim": "score == Chen's formula evaluated in integer half-points with round-half-up; helpers per definition; symmetric; shift-invariant",
    "outside": "nothing", "assumptions": COMMON_ASSUME + ["CBMC's IEEE-754 float model for f32 add/sub/mul/max/ceil/cast"],
}

# ---------------------------------------------------------------- C18
TABLE["C18"] = [
    H("c18_deck", functions=["Deck::get", "Deck::len", "POKER_DECK.arr"], domain="every usize index, after a priming call on another arbitrary index", bound="whole input type", draws="i0:usize, i:usize, j:usize"),
    H("c18_presets", functions=["Two::{AA,AK,AKs,AKo,AQs,AQo}"], domain="all suit pairs (every described combination) and every table index",
      bound="whole domain; unwind 18", draws="s1,s2:u8, i:u8"),
    H("c18_slot_tables", functions=["Four::OMAHA_PERMUTATIONS", "Six::FIVE_CARD_PERMUTATIONS", "Seven::FIVE_CARD_PERMUTATIONS"],
      domain="every strictly increasing in-range index tuple; every row", bound="whole domain; unwind 23", draws="a,b:u8, t0..t4:u8"),
]
PROPERTY_META["C18"] = {
    "claim": "deck in S,H,D,C x A..2 order, each card once, blank for every index >= 52; preset tables = exactly the described combinations once each; slot tables complete, duplicate-free, increasing",
    "outside": "nothing", "assumptions": COMMON_ASSUME,
}

# ---------------------------------------------------------------- C19
TABLE["C19"] = [
    H("c19_two_three_four", functions=["Two/Three/Four::{from, new, to_arr, first.., set_*, iter}"], domain=WORDS + ", any written slot, any written word",
      bound="one step from an arbitrary container (covers every setter history); unwind 9", draws="a:u32*4, w:u32, k:u8"),
    H("c19_five", functions=["Five::{from, new, to_arr, first..fifth, set_*, iter}"], domain=WORDS + ", any slot, any word", bound="one inductive step; unwind 9",
      draws="a:u32*5, w:u32, k:u8"),
    H("c19_six", functions=["Six::{from, from_1_and_2_and_3, to_arr, first..sixth, set_*, iter, five_from_permutation}"],
      domain=WORDS + ", any slot, any word; all 6^5 index tuples", bound="one inductive step; unwind 9", draws="a:u32*6, w:u32, k:u8, p:u8*5"),
    H("c19_seven", functions=["Seven::{from, new, to_arr, first..seventh, set_*, iter, five_from_permutation}"],
      domain=WORDS + ", any slot, any word; all 7^5 index tuples", bound="one inductive step; unwind 9", draws="a:u32*7, w:u32, k:u8, p:u8*5"),
]
PROPERTY_META["C19"] = {
    "claim": "constructors/readers/iteration/selection agree with a plain array; each of the 27 setters changes exactly its slot from any state",
    "outside": "nothing: containers have no hidden state, so one step from an arbitrary state covers every history", "assumptions": COMMON_ASSUME,
}

# ---------------------------------------------------------------- C12
TABLE["C12"] = [
    H("c12_symbol_tables", functions=["CardRank::from_char", "CardSuit::from_char"], domain="every Unicode scalar value", bound="whole input type", draws="c:char"),
    H("c12_token", functions=["PokerCard::from_index", "parse::get_rank_and_suit", "PokerCard::create", "str::chars (core)"],
      domain="every valid UTF-8 string of <= 8 bytes (symbolic bytes and length; core::str::from_utf8 filters)",
      bound="tokens longer than 8 bytes are outside; the code reads only the first two chars (<= 8 bytes)", timeout=1500,
      assume=["expected value decoded from the raw bytes by an independent UTF-8 decoder"], draws="bytes:u64 (little endian), len:u8"),
    H("c12_roundtrip", functions=["get_rank_char", "get_suit_char", "get_suit_letter", "PokerCard::from_index", "char::encode_utf8"],
      domain="52 cards x 2 renderings", bound="whole domain; unwind 10", draws="r,s:u8, glyph:bool", timeout=1500),
    H("c12_hand_parsers", functions=["TryFrom<&'static str> for Two..Seven", "Two..Seven::from_index", "parse::five_from_index", "BC64::from_index"],
      domain="token streams of 0..=9 tokens, every token value in {52 cards, blank}", bound="streams longer than 9 tokens are outside (the longest hand has 7 slots)",
      assume=["S6: <SplitWhitespace as Iterator>::next stubbed by an abstract token stream; <u32 as PokerCard>::from_index stubbed by token -> symbolic word (its real range is decided by c12_token)"],
      draws="n:u8, (r,s)*9 (r=13 is blank)"),
]
TABLE["C12"] += [
    H("c12_raw_two", tier="thorough", timeout=3000, functions=["<Two as TryFrom<&'static str>>::try_from", "Two::from_index", "core::str::split_whitespace (REAL)", "PokerCard::from_index"],
      domain="every ASCII string of at most 5 bytes as the whole text (real splitter, no stubs)", bound="texts longer than 5 bytes are outside; unwind 8",
      assume=["expected result computed by a hand-written ASCII tokenizer"], draws="bytes:u64 (little endian), len:u8"),
]
PROPERTY_META["C12"] = {
    "claim": "symbol tables for all scalars; token parser total and exact on all UTF-8 <= 8 bytes; render/parse round trip; hand parsers fail iff tokens run out and fill slots in token order; bit-set parser folds all tokens",
    "outside": "tokens > 8 bytes; whitespace splitting of raw text itself (core's split_whitespace is trusted, exercised concretely by the round-trip harness and natively in replay)",
    "assumptions": COMMON_ASSUME,
}

# ---------------------------------------------------------------- C13
TABLE["C13"] = [
    H("c13_predicates", functions=["Five::is_flush", "is_straight", "is_straight_flush", "is_wheel", "or_rank_bits", "or_bits", "and_bits"],
      domain="every five distinct cards in every slot order (2,598,960 x 120)", bound="loop-free; whole domain", draws="(r,s)*5"),
    H("c13_free_functions", functions=["evaluate::is_flush", "evaluate::or_rank_bits"], domain="arbitrary 32-bit words in five slots", bound="whole input type", draws="a:u32*5"),
    H("c13_category_distinct_ranks", solver="kissat", timeout=1800,
      functions=["Five::hand_rank (real evaluator, FLUSHES/UNIQUE_5 path)", "predicates"], domain="five distinct cards, five distinct ranks, any slot order",
      bound="whole domain; unwind 14", draws="(r,s)*5"),
    H("c13_category_paired_sorted", tier="thorough", solver="kissat", timeout=2400,
      functions=["Five::hand_rank (real evaluator, product path)", "predicates"], domain="five distinct cards with a repeated rank, descending slot order",
      bound="whole domain; unwind 14", draws="(r,s)*5"),
]
PROPERTY_META["C13"] = {
    "claim": "each predicate iff its definition on all hands/orders; category from ranking agrees (table path any order; product path sorted order in thorough); free functions == methods on arbitrary words",
    "outside": "category agreement for paired hands in unsorted order is covered through C01+C06 (value = ordinal, name = category of ordinal)",
    "assumptions": COMMON_ASSUME,
}

# ---------------------------------------------------------------- wiring (shared by C01, C04, C05, C06)
def WIRING(sizes=("five", "six", "seven"), validated=("five", "six", "seven")):
    out = []
    for n in sizes:
        T = n.capitalize()
        out.append(H(f"c04_defaults_{n}", functions=[f"HandRanker for {T} (trait defaults): hand_rank_value, hand_rank, hand_rank_validated"] + (["evaluate::five_cards"] if n == "five" else []),
                     domain=WORDS, bound="whole input type; unwind 9",
                     assume=[f"<{T} as HandRanker>::hand_rank_value_and_hand and ::hand_rank_value_validated replaced by arbitrary functions: the defaults are proved to be wired to the primitives whatever they compute"],
                     draws="a:u32*N, fv:u16, fvv:u16, fh:u32*5"))
    for n in validated:
        T = n.capitalize()
        out.append(H(f"c04_validated_{n}", functions=[f"<{T} as HandRanker>::hand_rank_value_validated", f"<{T} as HandValidator>::is_valid"] + (["evaluate::five_cards"] if n == "five" else []),
                     domain=WORDS, bound="whole input type; unwind 9", timeout=1800,
                     assume=[f"<{T} as HandRanker>::hand_rank_value_and_hand replaced by an arbitrary function with a call counter",
                             "a priming call of the validated entry point on another arbitrary array comes first (history of length 2)",
                             "native replay (and the fallback after an inconclusive solver run) also runs the nasty-word / extreme-hand / near-miss-after-valid family on the real code"],
                     draws="a:u32*N, fv:u16, fh:u32*5, a0:u32*N, fv0:u16", fallback=[1, 2, 3, 4, 5, 6, 7, 9, 1, 1, 1, 1, 1, 8, 8, 8, 8, 8, 8, 8, 3]))
    return out

# ---------------------------------------------------------------- C01
C02_HIST_FIVE = H("c01_five_history", timeout=1500, functions=["Five::{hand_rank_value, hand_rank_value_and_hand, hand_rank_value_validated, hand_rank} on three hands, then on a fourth"],
      domain="four five-card hands of distinct real cards (any may coincide)", bound="histories of length 4 above the five-card primitive; unwind 9",
      assume=["the five-card primitive is an arbitrary function with pre-drawn results (wiring stub): state kept above it (memo, cache) is exposed"], draws="((r,s)*7, fv:u16)*4")
C05_FIND_HIST = H("c05_find_history", solver="kissat", timeout=1800, functions=["Five::find_in_products called four times"],
      domain="two arbitrary usize keys, then the largest and the smallest product", bound="histories of length 4; unwind 14", draws="k0:usize, k1:usize")
C01_HIST_PAIRED = H("c01_five_history_paired", tier="thorough", solver="kissat", timeout=4000, functions=EVAL,
      domain="two hands of five distinct cards with a repeated rank, each in descending slot order: rank the first, then the second",
      bound="histories of length 2 on the product path of the REAL evaluator; unwind 14", draws="(r,s)*5, (r,s)*5")
TABLE["C01"] = [
    H("c01_flush_any_order", cross_solver=True, solver="kissat", timeout=1800, functions=EVAL, domain="five distinct cards of one suit, any slot order (5,148 hands x 120 orders)", bound="whole domain; unwind 14", draws="(r,s)*5"),
    H("c01_distinct_any_order", solver="kissat", timeout=1800, functions=EVAL, domain="five distinct cards, five distinct ranks, not one suit, any slot order (1,312,272 hands x 120)", bound="whole domain; unwind 14", draws="(r,s)*5"),
    H("c01_paired_sorted", solver="kissat", timeout=1800, functions=EVAL, domain="five distinct cards with a repeated rank, slots in descending card order (1,281,540 hands, 1 order each)", bound="whole domain; unwind 14 (13-step binary search + 1)", draws="(r,s)*5"),
    H("c01_folds_swap", solver="kissat", timeout=1800, functions=["Five::and_bits", "or_bits", "or_rank_bits", "multiply_primes", "is_flush"], domain="five distinct cards, any order, any adjacent slot pair swapped", bound="loop-free; whole domain", draws="(r,s)*5, k:u8"),
    H("c01_every_value_produced", solver="kissat", timeout=1800, functions=EVAL, domain="k: every ordinal 1..=7462 (symbolic index into the compile-time witness table S3)", bound="whole domain; unwind 14", draws="k:u16"),
    H("c01_witness_valid", functions=["<Five as HandValidator>::is_valid"], domain="k: every ordinal 1..=7462", bound="whole domain; unwind 9", draws="k:u16"),
] + [
    H(f"c01_paired_any_order_r{j:02d}", tier=f"seeded:p4:{j}:13", solver="kissat", timeout=2700, functions=EVAL,
      domain=f"five distinct cards with a repeated rank, ANY slot order, partition: rank of slot 0 is {j}", bound="whole partition; unwind 14", draws="(r,s)*5")
    for j in range(13)
] + WIRING(sizes=("five",), validated=("five",)) + [C02_HIST_FIVE, C05_FIND_HIST] + [
    C01_HIST_PAIRED,
    H("c01_five_history_distinct", tier="thorough", solver="kissat", timeout=4000, functions=EVAL + ["Five::hand_rank_value_validated", "Five::is_valid"],
      domain="two hands of five distinct cards with five distinct ranks (flush or not), any slot orders: rank the first (both entry points), then the second",
      bound="histories of length 2 on the table path of the REAL evaluator; unwind 14", draws="(r,s)*5, (r,s)*5"),
]
PROPERTY_META["C01"] = {
    "claim": "real evaluator value == S2 ordinal for every flush and every five-distinct-rank hand in every slot order, for every paired hand in descending order, "
             "and (quick: one of 13 partitions chosen by VERIF_SEED; thorough: all 13) for every paired hand in every slot order; folds invariant under adjacent swaps; "
             "every ordinal 1..=7462 produced by a witness hand; other entry points wired to the primitive (c04_defaults_five / c04_validated_five)",
    "outside": "quick tier: any-order coverage of paired hands is one partition in 13 per run (the sorted-order harness plus the fold-swap lemma cover the rest indirectly)",
    "assumptions": COMMON_ASSUME + ["S2 ordinal validated against a naive rules comparator natively in setup (oracle self-test, not a deciding step)",
                                    "'same value iff tie, lower iff beats' follows because S2 is the order isomorphism of the strength preorder onto 1..=7462"],
}

# ---------------------------------------------------------------- C04
TABLE["C04"] = [
    H(f"c04_valid_{n}",
      functions=[f"<{n.capitalize()} as HandValidator>::{{is_valid, is_corrupt, contain_blank, are_unique, iter}}", "CardNumber::filter"]
      + (["sort (core sort_unstable + reverse)"] if n in ("six", "seven") else []),
      domain=WORDS, bound="whole input type (2^(32N) arrays); unwind 9", timeout=1800, draws="a:u32*N",
      assume=(["are_unique is asserted in c04_unique_* (Six/Seven use 0xFFFFFFFF as a scan sentinel; validity is unaffected)"] if n in ("six", "seven") else []))
    for n in ("two", "three", "four", "five", "six", "seven")
] + [
    H(f"c04_unique_{n}", functions=[f"<{n.capitalize()} as HandValidator>::are_unique", "sort"], domain=WORDS + ", no slot 0xFFFFFFFF",
      bound="whole domain; unwind 9", timeout=1800, draws="a:u32*N") for n in ("six", "seven")
] + [
    H("c04_invalid_five_real", timeout=1500, functions=["Five::hand_rank_value_validated", "hand_rank_validated", "evaluate::five_cards", "Five::is_valid", "REAL evaluator behind it (nothing stubbed)"],
      domain="every array of five arbitrary 32-bit words that is NOT a valid hand", bound="whole domain; unwind 23",
      assume=["Six/Seven: the same claim is decided with the evaluator abstracted (c04_validated_six/seven, call counter); their native replay runs a nasty-word family on the real code"], draws="a:u32*5"),
] + WIRING()
PROPERTY_META["C04"] = {
    "claim": "is_valid iff all slots are S1 cards and pairwise distinct, for ARBITRARY words in every slot, all six sizes; validated ranking (and evaluate::five_cards) returns 0 without reaching the evaluator "
             "when not valid and the unvalidated value otherwise, for any evaluator primitive; never panics on the validated path",
    "outside": "panic-freedom of the evaluator primitive itself on valid hands is C01/C05",
    "assumptions": COMMON_ASSUME,
}

# ---------------------------------------------------------------- C05
FINDSTUB = ["Five::find_in_products replaced by its contract 'returns some index < 4888' (decided on the real function by c05_find_in_products)"]
TABLE["C05"] = [
    H("c05_find_in_products", cross_solver=True, solver="kissat", functions=["Five::find_in_products", "lookups::PRODUCTS"], domain="key: every usize",
      bound="unwind 14 (13-step binary search over 4888 entries, unwinding assertion on)", draws="key:usize"),
    H("c05_find_history", solver="kissat", timeout=1800, functions=["Five::find_in_products called four times"], domain="two arbitrary usize keys, then the largest and the smallest product",
      bound="histories of length 4; unwind 14", draws="k0:usize, k1:usize"),
    H("c05_blank_five", solver="kissat", timeout=1800, functions=EVAL + ["HandRank::from"],
      domain="five slots over " + CARDBLANK + ", at least one blank (53^5 - 52^5 ordered arrays)", bound="whole domain; unwind 14", draws="(r,s)*5, r=13 is blank"),
    H("c05_five_total", solver="kissat", timeout=1800, functions=EVAL, domain="five slots over " + CARDBLANK + " (all 53^5 ordered arrays)",
      bound="whole domain; unwind 14", draws="(r,s)*5"),
    H("c05_six_logic_total", functions=["Six::hand_rank_value_and_hand", "five_from_permutation", "Five::sort", "HandRanker::hand_rank_value (default)"], domain="six slots over " + CARDBLANK,
      bound="whole domain; unwind 9", assume=["<Five as HandRanker>::hand_rank_value_and_hand replaced by an arbitrary total function (its own panic freedom on card-or-blank fives is c05_five_total)"],
      draws="(r,s)*7 (first six used)"),
    H("c05_seven_logic_total", functions=["Seven::hand_rank_value_and_hand", "five_from_permutation", "Five::sort", "HandRanker::hand_rank_value (default)"], domain="seven slots over " + CARDBLANK,
      bound="whole domain; unwind 23 (21 candidate rows)", assume=["<Five as HandRanker>::hand_rank_value_and_hand replaced by an arbitrary total function"],
      draws="(r,s)*7"),
    H("c05_blank_five_entry_points", tier="thorough", solver="kissat", timeout=1800, functions=EVAL + ["hand_rank_value", "hand_rank", "hand_rank_value_validated", "hand_rank_validated", "evaluate::five_cards", "Five::is_valid"],
      domain="four distinct real cards and one blank in any of the five slots", bound="whole sub-domain; unwind 14", draws="(r,s)*4, k:u8"),
    H("c05_six_total", tier="thorough", solver="kissat", timeout=1800, functions=["Six::hand_rank_value_and_hand", "five_from_permutation", "Five::sort"] + EVAL[:6] + EVAL[7:],
      domain="six slots over " + CARDBLANK, bound="whole domain; unwind 14", assume=FINDSTUB, draws="(r,s)*7 (first six used)"),
    H("c05_seven_total", tier="thorough", solver="kissat", timeout=3000, functions=["Seven::hand_rank_value_and_hand", "five_from_permutation", "Five::sort"] + EVAL[:6] + EVAL[7:],
      domain="seven slots over " + CARDBLANK, bound="whole domain; unwind 23", assume=FINDSTUB, draws="(r,s)*7"),
] + WIRING(validated=("five", "six")) + [dict(x, tier="thorough") for x in WIRING(sizes=(), validated=("seven",))]
PROPERTY_META["C05"] = {
    "claim": "no panic / overflow / out-of-bounds index in any ranking entry point of Five, Six, Seven on card-or-blank hands (ordered arrays, all of them) nor in find_in_products for any usize; a five with a blank has value 0 / Invalid through every entry point",
    "outside": "words that are neither a card nor blank (C04 covers the validated path for those); 'no hang' is covered by the passing unwinding assertions (all loops bounded)",
    "assumptions": COMMON_ASSUME,
}

S5NOTE = ["S5: <Five as HandRanker>::hand_rank_value_and_hand replaced by an uninterpreted evaluator: a nondeterministic table of values in 1..=7462 indexed by the SET of "
          "base cards (the harness's 6, 7 or 8 symbolic cards) in the five slots (order-invariant, functional); reaching it with anything but five distinct base cards is a failure (strict). "
          "The real evaluator has these three properties by C01."]
SIXSEVEN = ["hand_rank_value_and_hand", "HandRanker::hand_rank_value (default)", "Permutator::five_from_permutation", "FIVE_CARD_PERMUTATIONS", "Five::sort (core sort_unstable + reverse)"]
# ---------------------------------------------------------------- C02 / C03
C02_ABS = [
    H("c02_seven", fallback=FB, unwind=130, timeout=1800, functions=["Seven::" + x for x in SIXSEVEN], domain="seven distinct real cards, any slot order; every five-card evaluator satisfying S5",
      bound="whole domain; unwind 130 (harness enumerates all 128 slot masks itself)", assume=S5NOTE, draws="(r,s)*7, then T (ignored natively)"),
    H("c02_six", fallback=FB, unwind=66, timeout=1800, functions=["Six::" + x for x in SIXSEVEN], domain="six distinct real cards, any slot order; every five-card evaluator satisfying S5",
      bound="whole domain; unwind 66", assume=S5NOTE, draws="(r,s)*7 (first six used), then T"),
]
C02_REAL = [
    H("c02_six_royal_mask", tier="thorough", solver="kissat", timeout=1800, functions=["Six::hand_rank_value_and_hand"] + EVAL, domain="REAL evaluator: royal flush of spades on any 5 of 6 slots x any other card",
      bound="whole family; unwind 14", draws="m:u8, (r,s)"),
]
HISTNOTE = ["the ranking primitive of the hand size is an arbitrary function with two pre-drawn results (wiring stub): any state kept above it (memo, cache) is exposed; "
            "natively the reference is the best five-card value over all subsets and all ordered pairs of hands from a small two-suit pool are run as well"]
C02_HIST = [
    H("c02_six_history", timeout=1500, functions=["Six::{hand_rank_value, hand_rank_value_and_hand, hand_rank_value_validated, hand_rank} called on one hand, then on another"],
      domain="four six-card hands of distinct real cards (any of them may coincide, any order): every entry point on the first three, then every entry point on the fourth",
      bound="histories of length 4 (patterns X,Y,X,X / X,Y,X,Y included; caches that need longer sequences, or counters that need 65,536 calls, are outside); unwind 9", assume=HISTNOTE, draws="((r,s)*7, fv:u16)*4"),
    H("c02_seven_history", timeout=1500, functions=["Seven::{hand_rank_value, hand_rank_value_and_hand, hand_rank_value_validated, hand_rank} called on one hand, then on another"],
      domain="four seven-card hands of distinct real cards (any may coincide)", bound="histories of length 4; unwind 9", assume=HISTNOTE, draws="((r,s)*7, fv:u16)*4"),
    H("c01_five_history", timeout=1500, functions=["Five::{hand_rank_value, hand_rank_value_and_hand, hand_rank_value_validated, hand_rank} on three hands, then on a fourth"],
      domain="four five-card hands of distinct real cards (any may coincide)", bound="histories of length 4 above the five-card primitive (the primitive itself: c01_five_history_distinct, thorough); unwind 9",
      assume=HISTNOTE, draws="((r,s)*7, fv:u16)*4"),
]
C02_REPEAT = [
    H("c03_six_repeat", timeout=1500, unwind=66, functions=["Six::hand_rank_value_and_hand called five times (X, Y, X, X, Y)", "five_from_permutation", "Five::sort"],
      domain="two overlapping six-card hands X = cards 0..5, Y = cards 1..6 of seven distinct real cards; S5 evaluator over the seven-card base",
      bound="histories of length 5 over two hands; unwind 66", assume=S5NOTE, draws="(r,s)*8, then T"),
    H("c03_seven_repeat", tier="thorough", timeout=3000, unwind=130, functions=["Seven::hand_rank_value_and_hand called five times (X, Y, X, X, Y)", "five_from_permutation", "Five::sort"],
      domain="two overlapping seven-card hands over eight distinct real cards; S5 evaluator over the eight-card base",
      bound="histories of length 5 over two hands; unwind 130", assume=S5NOTE, draws="(r,s)*8, then T"),
]
TABLE["C02"] = C02_ABS + C02_HIST + C02_REPEAT + C02_REAL
PROPERTY_META["C02"] = {
    "claim": "six/seven value == min over ALL five-card subsets (enumerated by bit masks, independent of the repository's row tables) of the five-card value, for every slot order, "
             "for every evaluator with the S5 facts; by C01 (real value = rule-derived ordinal) this is 'equals a direct rule-based evaluation'. Real-evaluator family: royal flush on every slot mask.",
    "outside": "the real evaluator inside the 21-way minimisation is abstracted (S5) except on the royal-mask family; a defect that only shows for specific real values and not for the abstraction cannot exist (the abstraction is more general)",
    "assumptions": COMMON_ASSUME + S5NOTE,
}
TABLE["C03"] = C02_ABS + C02_REPEAT + C02_REAL + [
    H("c05_five_total", solver="kissat", timeout=1800, functions=EVAL, domain="five slots over " + CARDBLANK + ": reported hand == input (identity clause, real evaluator)", bound="whole domain; unwind 14", draws="(r,s)*5"),
]
PROPERTY_META["C03"] = {
    "claim": "six/seven: reported hand strictly descending (hence five distinct), every card from the input, and f(reported hand) == reported value, for every S5 evaluator and slot order; "
             "five: reported hand == input on the real evaluator for every card-or-blank five (and in every C01 harness)",
    "outside": "as C02",
    "assumptions": COMMON_ASSUME + S5NOTE,
}
# ---------------------------------------------------------------- C09
TABLE["C09"] = [
    H("c09_seven_vs_six", fallback=FB, timeout=2400, functions=["Seven::hand_rank_value", "Six::hand_rank_value"] + ["Six/Seven::" + x for x in SIXSEVEN[2:]],
      domain="seven distinct real cards, any order, all seven six-card sub-hands; S5 evaluator", bound="whole domain; unwind 23", assume=S5NOTE, draws="(r,s)*7, then T"),
    H("c09_six_vs_five", fallback=FB, timeout=1800, functions=["Six::hand_rank_value", "Five::hand_rank_value (stub)"], domain="six distinct real cards, any order, all six five-card sub-hands; S5 evaluator",
      bound="whole domain; unwind 14", assume=S5NOTE, draws="(r,s)*7 (first six used), then T"),
]
TABLE["C09"] += [C01_HIST_PAIRED]
PROPERTY_META["C09"] = {
    "claim": "v7 <= every v6 and == min v6; v6 <= every v5 and == min v5 — for every evaluator with the S5 facts, all slot orders",
    "outside": "as C02 (S5 abstraction of the five-card evaluator); the S5 assumption that the real five-card evaluator is a function of its cards is itself "
               "checked on the real code for call histories of length 2 (c01_five_history_distinct: table path, C01 thorough; c01_five_history_paired: product path, thorough tier here)",
    "assumptions": COMMON_ASSUME + S5NOTE,
}
# C06: add the wiring of hand_rank()/hand_rank_validated() to the value, and the real-evaluator link cards -> class
TABLE["C06"] += WIRING(validated=()) + [
    H("c06_hand_class_distinct_ranks", solver="kissat", timeout=1800, functions=["Five::hand_rank (REAL evaluator, FLUSHES / UNIQUE_5 path)", "HandRank::from", "determine_name", "determine_class"],
      domain="five distinct cards with five distinct ranks, any slot order", bound="whole domain; unwind 14", draws="(r,s)*5"),
    H("c06_hand_class_paired_sorted", tier="thorough", solver="kissat", timeout=2400, functions=["Five::hand_rank (REAL evaluator, product path)", "HandRank::from"],
      domain="five distinct cards with a repeated rank, descending slot order", bound="whole domain; unwind 14", draws="(r,s)*5"),
]
# C08: six/seven value under shift
TABLE["C08"] += [
    H("c08_value_shift_seven", fallback=FB, timeout=1800, functions=["<Seven as Shifty>::shift_suit", "Seven::hand_rank_value"], domain="seven distinct real cards, any order, the three non-trivial shifts",
      bound="whole domain; unwind 23", assume=S5NOTE + ["shift variant: the evaluator's value depends only on the set of base cards when all five are shifted uniformly (five-card invariance is decided on the real evaluator by c08_value_*)"], draws="(r,s)*7, T, k:u8"),
    H("c08_value_shift_six", fallback=FB, timeout=1800, functions=["<Six as Shifty>::shift_suit", "Six::hand_rank_value"], domain="six distinct real cards, any order, the three non-trivial shifts",
      bound="whole domain; unwind 14", assume=S5NOTE, draws="(r,s)*7 (first six used), then T"),
]
